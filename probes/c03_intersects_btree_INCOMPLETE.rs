use vstd::prelude::*;
use vstd::std_specs::iter::IteratorSpec;
use vstd::std_specs::btree::*;
use vstd::std_specs::cmp::*;
use std::collections::BTreeSet;
use core::cmp::Ordering;
verus! {
broadcast use vstd::std_specs::btree::group_btree_axioms;

pub open spec fn c<T: Ord>(x: &T, y: &T) -> Ordering { OrdSpec::cmp_spec(x, y) }
/// Lawful total order on T, stated in our own vocabulary (assumption on #[derive(Ord)]).
pub open spec fn lawful_ord<T: Ord>() -> bool {
    &&& forall|x: &T, y: &T| #[trigger] c(x, y) == Ordering::Equal <==> *x == *y
    &&& forall|x: &T, y: &T| #[trigger] c(x, y) == Ordering::Less <==> c(y, x) == Ordering::Greater
    &&& forall|x: &T, y: &T, z: &T| #[trigger] c(x, y) == Ordering::Less && #[trigger] c(y, z) == Ordering::Less ==> c(x, z) == Ordering::Less
}
pub open spec fn cur<T>(r: Seq<&T>, i: int) -> Option<&T> { if 0 <= i < r.len() { Some(r[i]) } else { None } }
pub open spec fn rest<T>(r: Seq<&T>, i: int) -> Seq<&T> { if 0 <= i < r.len() { r.skip(i + 1) } else { Seq::empty() } }
pub open spec fn incr<T: Ord>(r: Seq<&T>) -> bool { forall|i: int, j: int| 0 <= i < j < r.len() ==> #[trigger] c(r[i], r[j]) == Ordering::Less }

fn intersects_btree<T: Ord>(a: &BTreeSet<T>, b: &BTreeSet<T>) -> (res: bool)
    requires vstd::laws_cmp::obeys_cmp::<T>(), lawful_ord::<T>(),
    ensures res == !a@.disjoint(b@),
{
    let mut it_a = a.iter();
    let mut it_b = b.iter();
    let ghost ra = it_a.remaining();
    let ghost rb = it_b.remaining();
    proof {
        assert(increasing_seq(ra)); assert(increasing_seq(rb));
        assert(incr(ra)); assert(incr(rb));
    }
    let mut va = it_a.next();
    let mut vb = it_b.next();
    let ghost mut ia: int = 0;
    let ghost mut ib: int = 0;
    while let (Some(x), Some(y)) = (va, vb) 
        invariant
            vstd::laws_cmp::obeys_cmp::<T>(), lawful_ord::<T>(),
            it_a.obeys_prophetic_iter_laws(), it_b.obeys_prophetic_iter_laws(),
            incr(ra), incr(rb),
            ra.unref().to_set() == a@, rb.unref().to_set() == b@,
            ra.len() == a@.len(), rb.len() == b@.len(),
            0 <= ia <= ra.len(), 0 <= ib <= rb.len(),
            va == cur(ra, ia), vb == cur(rb, ib),
            it_a.remaining() == rest(ra, ia), it_b.remaining() == rest(rb, ib),
            forall|i: int| 0 <= i < ia ==> !b@.contains(*#[trigger] ra[i]),
            forall|j: int| 0 <= j < ib ==> !a@.contains(*#[trigger] rb[j]),
        decreases (a@.len() - ia) + (b@.len() - ib),
    {
        proof {
            assert(ra.unref()[ia] == *x); assert(a@.contains(*x));
            assert(rb.unref()[ib] == *y); assert(b@.contains(*y));
        }
        match x.cmp(y) {
            core::cmp::Ordering::Less => { 
                proof {
                    assert forall|k: int| 0 <= k < rb.len() implies *#[trigger] rb[k] != *x by {
                        if k < ib { } else if k == ib { assert(c(x, rb[k]) == Ordering::Less); } else { assert(c(y, rb[k]) == Ordering::Less); assert(c(x, rb[k]) == Ordering::Less); }
                    }
                    assert(!b@.contains(*x)) by { if b@.contains(*x) { let k = choose|k: int| 0 <= k < rb.unref().len() && rb.unref()[k] == *x; assert(*rb[k] == *x); } }
                }
                va = it_a.next(); proof { ia = ia + 1; } 
            },
            core::cmp::Ordering::Greater => { 
                proof {
                    assert(c(y, x) == Ordering::Less);
                    assert forall|k: int| 0 <= k < ra.len() implies *#[trigger] ra[k] != *y by {
                        if k < ia { } else if k == ia { } else { assert(c(x, ra[k]) == Ordering::Less); assert(c(y, ra[k]) == Ordering::Less); }
                    }
                    assert(!a@.contains(*y)) by { if a@.contains(*y) { let k = choose|k: int| 0 <= k < ra.unref().len() && ra.unref()[k] == *y; assert(*ra[k] == *y); } }
                }
                vb = it_b.next(); proof { ib = ib + 1; } 
            },
            core::cmp::Ordering::Equal => { proof { assert(*x == *y); } return true },
        }
    }
    proof {
        assert forall|k: T| a@.contains(k) implies !b@.contains(k) by {
            let i = choose|i: int| 0 <= i < ra.unref().len() && ra.unref()[i] == k;
            if i < ia { assert(*ra[i] == k); } else {
                // va is Some(ra[ia]) so vb must be None => ib == rb.len()
                if b@.contains(k) { let j = choose|j: int| 0 <= j < rb.unref().len() && rb.unref()[j] == k; assert(*rb[j] == k); assert(j < ib); }
            }
        }
    }
    false
}
} fn main() {}
