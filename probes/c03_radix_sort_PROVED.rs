use vstd::prelude::*;
use vstd::set_lib::*;
use vstd::seq_lib::*;
use vstd::std_specs::iter::IteratorSpec;
verus! {
global layout usize is size == 8;

#[derive(Clone, Copy, Debug, Default, PartialEq, Eq)]
struct RewriteThin {
    scope_be32: [u8; 32], // full 256-bit scope, byte-lexicographic order
    rule_id: u32,         // compact, unique, stable per rule
    nonce: u32,           // insertion-order tie-break
    handle: usize,        // index into fat payload vec (usize to avoid truncation casts)
}
struct PendingTx {
    thin: Vec<RewriteThin>,
    scratch: Vec<RewriteThin>,
    counts16: Vec<u32>,
}

pub uninterp spec fn digit(r: RewriteThin, p: int) -> int;
#[verifier::external_body]
fn bucket16(r: &RewriteThin, pass: usize) -> (b: u16)
    requires pass < 20
    ensures b as int == digit(*r, pass as int)
{ unimplemented!() }
pub assume_specification<T: Clone>[<[T]>::fill](s: &mut [T], v: T)
    ensures final(s)@.len() == old(s)@.len(), forall|i: int| 0 <= i < old(s)@.len() ==> final(s)@[i] == v;

// ---- counting (from r1.rs) ----
pub open spec fn cnt_lt(d: Seq<int>, n: int, x: int) -> int decreases n {
    if n <= 0 { 0 } else { cnt_lt(d, n - 1, x) + if d[n - 1] < x { 1int } else { 0int } }
}
pub open spec fn cnt_eq(d: Seq<int>, n: int, x: int) -> int decreases n {
    if n <= 0 { 0 } else { cnt_eq(d, n - 1, x) + if d[n - 1] == x { 1int } else { 0int } }
}
pub open spec fn pos(d: Seq<int>, i: int) -> int { cnt_lt(d, d.len() as int, d[i]) + cnt_eq(d, i, d[i]) }
pub proof fn lemma_cnt_bounds(d: Seq<int>, n: int, x: int)
    requires 0 <= n <= d.len()
    ensures 0 <= cnt_lt(d, n, x), 0 <= cnt_eq(d, n, x), cnt_lt(d, n, x) + cnt_eq(d, n, x) <= n
    decreases n
{ if n > 0 { lemma_cnt_bounds(d, n - 1, x); } }
pub proof fn lemma_cnt_eq_mono(d: Seq<int>, a: int, b: int, x: int)
    requires 0 <= a <= b <= d.len()
    ensures cnt_eq(d, a, x) <= cnt_eq(d, b, x)
    decreases b - a
{ if a < b { lemma_cnt_eq_mono(d, a, b - 1, x); } }
pub proof fn lemma_pos_in_range(d: Seq<int>, i: int)
    requires 0 <= i < d.len()
    ensures 0 <= pos(d, i) < d.len()
{
    let n = d.len() as int; let x = d[i];
    lemma_cnt_bounds(d, n, x); lemma_cnt_bounds(d, i, x);
    lemma_cnt_eq_mono(d, i + 1, n, x);
    assert(cnt_eq(d, i + 1, x) == cnt_eq(d, i, x) + 1);
}
// cnt_lt(d, n, x+1) == cnt_lt(d,n,x) + cnt_eq(d,n,x)
pub proof fn lemma_cnt_lt_succ(d: Seq<int>, n: int, x: int)
    requires 0 <= n <= d.len()
    ensures cnt_lt(d, n, x + 1) == cnt_lt(d, n, x) + cnt_eq(d, n, x)
    decreases n
{ if n > 0 { lemma_cnt_lt_succ(d, n - 1, x); } }

pub open spec fn dseq(s: Seq<RewriteThin>, p: int) -> Seq<int> { Seq::new(s.len(), |j: int| digit(s[j], p)) }

pub open spec fn sum_to(s: Seq<u32>, k: int) -> int decreases k {
    if k <= 0 { 0 } else { sum_to(s, k - 1) + s[k - 1] as int }
}
proof fn lemma_sum_mono(s: Seq<u32>, a: int, b: int)
    requires 0 <= a <= b <= s.len()
    ensures sum_to(s, a) <= sum_to(s, b)
    decreases b - a
{ if a < b { lemma_sum_mono(s, a, b - 1); } }
proof fn lemma_cnt_lt_zero(d: Seq<int>, n: int)
    requires 0 <= n <= d.len(), forall|j: int| 0 <= j < d.len() ==> 0 <= #[trigger] d[j]
    ensures cnt_lt(d, n, 0) == 0
    decreases n
{ if n > 0 { lemma_cnt_lt_zero(d, n - 1); } }
proof fn lemma_sum_hist(hist: Seq<u32>, d: Seq<int>, n: int, x: int)
    requires 0 <= x <= 65536, hist.len() == 65536, n == d.len(),
        forall|j: int| 0 <= j < d.len() ==> 0 <= #[trigger] d[j],
        forall|y: int| 0 <= y < 65536 ==> (#[trigger] hist[y]) as int == cnt_eq(d, n, y),
    ensures sum_to(hist, x) == cnt_lt(d, n, x)
    decreases x
{
    if x == 0 { lemma_cnt_lt_zero(d, n); } else { lemma_sum_hist(hist, d, n, x - 1); lemma_cnt_lt_succ(d, n, x - 1); }
}

pub proof fn lemma_cnt_lt_mono_x(d: Seq<int>, n: int, x: int, y: int)
    requires 0 <= n <= d.len(), x < y
    ensures cnt_lt(d, n, x) + cnt_eq(d, n, x) <= cnt_lt(d, n, y)
    decreases n
{ if n > 0 { lemma_cnt_lt_mono_x(d, n - 1, x, y); } }
pub proof fn lemma_pos_monotone(d: Seq<int>, i: int, j: int)
    requires 0 <= i < d.len(), 0 <= j < d.len(), d[i] < d[j] || (d[i] == d[j] && i < j)
    ensures pos(d, i) < pos(d, j)
{
    let n = d.len() as int;
    if d[i] < d[j] {
        lemma_cnt_lt_mono_x(d, n, d[i], d[j]);
        lemma_cnt_eq_mono(d, i + 1, n, d[i]);
        assert(cnt_eq(d, i + 1, d[i]) == cnt_eq(d, i, d[i]) + 1);
        lemma_cnt_bounds(d, j, d[j]);
    } else {
        lemma_cnt_eq_mono(d, i + 1, j, d[i]);
        assert(cnt_eq(d, i + 1, d[i]) == cnt_eq(d, i, d[i]) + 1);
    }
}
pub proof fn lemma_pos_injective(d: Seq<int>, i: int, j: int)
    requires 0 <= i < d.len(), 0 <= j < d.len(), i != j
    ensures pos(d, i) != pos(d, j)
{
    if d[i] < d[j] || (d[i] == d[j] && i < j) { lemma_pos_monotone(d, i, j); } else { lemma_pos_monotone(d, j, i); }
}

pub proof fn lemma_pos_surjective(d: Seq<int>, x: int)
    requires 0 <= x < d.len()
    ensures exists|i: int| 0 <= i < d.len() && pos(d, i) == x
{
    let n = d.len() as int;
    let p = Seq::new(d.len(), |i: int| pos(d, i));
    assert(p.no_duplicates()) by {
        assert forall|i: int, j: int| 0 <= i < p.len() && 0 <= j < p.len() && i != j implies p[i] != p[j] by { lemma_pos_injective(d, i, j); }
    }
    p.unique_seq_to_set();
    lemma_int_range(0, n);
    let r = set_int_range(0, n);
    assert(p.to_set().subset_of(r)) by {
        assert forall|y: int| p.to_set().contains(y) implies r.contains(y) by {
            let i = choose|i: int| 0 <= i < p.len() && p[i] == y; lemma_pos_in_range(d, i);
        }
    }
    lemma_subset_equality(p.to_set(), r);
    assert(p.to_set().contains(x));
    let i = choose|i: int| 0 <= i < p.len() && p[i] == x;
    assert(pos(d, i) == x);
}
/// a <= b on digits p-1 .. 0 (digit p-1 most significant)
pub open spec fn le_low(a: RewriteThin, b: RewriteThin, p: int) -> bool decreases p {
    if p <= 0 { true } else { digit(a, p - 1) < digit(b, p - 1) || (digit(a, p - 1) == digit(b, p - 1) && le_low(a, b, p - 1)) }
}
pub open spec fn sorted_low(s: Seq<RewriteThin>, p: int) -> bool { forall|x: int, y: int| 0 <= x < y < s.len() ==> le_low(#[trigger] s[x], #[trigger] s[y], p) }

pub open spec fn perm_witness(a: Seq<RewriteThin>, b: Seq<RewriteThin>, f: Seq<int>) -> bool {
    &&& a.len() == b.len() && f.len() == a.len()
    &&& forall|k: int| 0 <= k < f.len() ==> 0 <= #[trigger] f[k] < b.len()
    &&& f.no_duplicates()
    &&& forall|k: int| 0 <= k < a.len() ==> #[trigger] a[k] == b[f[k]]
}
pub open spec fn is_perm(a: Seq<RewriteThin>, b: Seq<RewriteThin>) -> bool { exists|f: Seq<int>| perm_witness(a, b, f) }

pub proof fn lemma_perm_refl(a: Seq<RewriteThin>) ensures is_perm(a, a)
{ let f = Seq::new(a.len(), |k: int| k); assert(perm_witness(a, a, f)); }

pub proof fn lemma_perm_trans(a: Seq<RewriteThin>, b: Seq<RewriteThin>, c: Seq<RewriteThin>)
    requires is_perm(a, b), is_perm(b, c) ensures is_perm(a, c)
{
    let f = choose|f: Seq<int>| perm_witness(a, b, f);
    let g = choose|g: Seq<int>| perm_witness(b, c, g);
    let h = Seq::new(a.len(), |k: int| g[f[k]]);
    assert(perm_witness(a, c, h)) by {
        assert forall|i: int, j: int| 0 <= i < h.len() && 0 <= j < h.len() && i != j implies h[i] != h[j] by { assert(f[i] != f[j]); }
    }
}

/// The pass theorem: a stable counting scatter by digit p turns "sorted by digits p-1..0" into "sorted by digits p..0".
pub proof fn lemma_pass(src: Seq<RewriteThin>, dst: Seq<RewriteThin>, p: int)
    requires
        p >= 0, dst.len() == src.len(), sorted_low(src, p),
        forall|i: int| 0 <= i < src.len() ==> dst[pos(dseq(src, p), i)] == #[trigger] src[i],
    ensures sorted_low(dst, p + 1), is_perm(dst, src),
{
    let d = dseq(src, p); let n = src.len() as int;
    // inverse of pos
    let inv = Seq::new(src.len(), |x: int| choose|i: int| 0 <= i < n && pos(d, i) == x);
    assert forall|x: int| 0 <= x < n implies 0 <= #[trigger] inv[x] < n && pos(d, inv[x]) == x by { lemma_pos_surjective(d, x); }
    assert(perm_witness(dst, src, inv)) by {
        assert forall|x: int, y: int| 0 <= x < n && 0 <= y < n && x != y implies inv[x] != inv[y] by { }
        assert forall|x: int| 0 <= x < n implies #[trigger] dst[x] == src[inv[x]] by { assert(dst[pos(d, inv[x])] == src[inv[x]]); }
    }
    assert forall|x: int, y: int| 0 <= x < y < n implies le_low(#[trigger] dst[x], #[trigger] dst[y], p + 1) by {
        let i = inv[x]; let j = inv[y];
        assert(dst[x] == src[i] && dst[y] == src[j]);
        assert(d[i] == digit(src[i], p) && d[j] == digit(src[j], p));
        if d[j] < d[i] || (d[j] == d[i] && j < i) { lemma_pos_monotone(d, j, i); }
        if d[i] == d[j] { assert(i < j); assert(le_low(src[i], src[j], p)); }
    }
}

impl PendingTx {
    pub closed spec fn wf(&self) -> bool { self.counts16@.len() == 0 || self.counts16@.len() == 65536 }

    /// Stable LSD radix sort over 16-bit big-endian digits.
    fn radix_sort(&mut self) 
        requires old(self).wf(), old(self).thin@.len() <= u32::MAX,
            forall|r: RewriteThin, p: int| 0 <= p < 20 ==> 0 <= #[trigger] digit(r, p) < 65536,
        ensures
            final(self).wf(),
            is_perm(final(self).thin@, old(self).thin@),
            old(self).thin@.len() > 1 ==> sorted_low(final(self).thin@, 20),
    {
        let n = self.thin.len();
        if n <= 1 {
            proof { lemma_perm_refl(self.thin@); }
            return;
        }
        self.scratch.resize(n, RewriteThin::default());

        // Lazy allocation of 16-bit histogram (65536 buckets).
        if self.counts16.is_empty() {
            self.counts16 = vec![0u32; 1 << 16];
            proof { assert(1usize << 16 == 65536) by(bit_vector); }
        }

        let ghost orig = self.thin@;
        proof { lemma_perm_refl(orig); assert(sorted_low(orig, 0)); }
        let mut flip = false;
        for pass in 0..20 
            invariant
                n == orig.len(), 1 < n <= u32::MAX,
                self.thin@.len() == n, self.scratch@.len() == n, self.counts16@.len() == 65536,
                forall|r: RewriteThin, p: int| 0 <= p < 20 ==> 0 <= #[trigger] digit(r, p) < 65536,
                flip == (pass % 2 == 1),
                is_perm(if flip { self.scratch@ } else { self.thin@ }, orig),
                sorted_low(if flip { self.scratch@ } else { self.thin@ }, pass as int),
        {
            let ghost cur = if flip { self.scratch@ } else { self.thin@ };
            let (src, dst) = if flip {
                (self.scratch.as_slice(), self.thin.as_mut_slice())
            } else {
                (self.thin.as_slice(), self.scratch.as_mut_slice())
            };
            proof { assert(src@ == cur); }

            let counts = &mut self.counts16;
            let ghost d = dseq(src@, pass as int);
            let ghost nn = src@.len() as int;
            counts.fill(0);

            // Count
            for r in it: src 
                invariant
                    pass < 20, counts@.len() == 65536, nn == src@.len(), nn <= u32::MAX, d == dseq(src@, pass as int),
                    it.snapshot@.remaining().unref() == src@,
                    it.snapshot@.remaining() == it.history@ + it.iter.remaining(),
                    forall|r: RewriteThin, p: int| 0 <= p < 20 ==> 0 <= #[trigger] digit(r, p) < 65536,
                    forall|x: int| 0 <= x < 65536 ==> (#[trigger] counts@[x]) as int == cnt_eq(d, it.history@.len() as int, x),
            {
                let ghost k = it.history@.len() as int;
                proof { assert(src@[k] == *r); assert(d[k] == digit(*r, pass as int)); lemma_cnt_bounds(d, k, d[k]); }
                let b = bucket16(r, pass) as usize;
                counts[b] = counts[b].wrapping_add(1);
                proof {
                    assert forall|x: int| 0 <= x < 65536 implies (#[trigger] counts@[x]) as int == cnt_eq(d, k + 1, x) by { }
                }
            }

            // Prefix sums
            let ghost hist = counts@;
            proof {
                assert forall|j: int| 0 <= j < d.len() implies 0 <= #[trigger] d[j] by { }
                assert forall|x: int| 0 <= x <= 65536 implies sum_to(hist, x) == cnt_lt(d, nn, x) by { lemma_sum_hist(hist, d, nn, x); }
                lemma_cnt_bounds(d, nn, 65536);
            }
            let mut sum: u32 = 0;
            for c in it: counts.iter_mut() 
                invariant
                    nn <= u32::MAX, hist.len() == 65536,
                    forall|x: int| 0 <= x <= 65536 ==> #[trigger] sum_to(hist, x) == cnt_lt(d, nn, x),
                    0 <= cnt_lt(d, nn, 65536) <= nn,
                    it.snapshot@.remaining().len() == 65536,
                    it.snapshot@.remaining() == it.history@ + it.iter.remaining(),
                    forall|i: int| 0 <= i < 65536 ==> *(#[trigger] it.snapshot@.remaining()[i]) == hist[i],
                    sum as int == sum_to(hist, it.history@.len() as int),
                    forall|i: int| 0 <= i < it.history@.len() ==> *final(#[trigger] it.history@[i]) as int == sum_to(hist, i),
            {
                proof { 
                    let k = it.history@.len() as int;
                    assert(*c == hist[k]) by { assert(it.snapshot@.remaining()[k] == c); }
                    lemma_sum_mono(hist, k + 1, 65536);
                    assert(sum_to(hist, k + 1) == sum_to(hist, k) + hist[k] as int);
                }
                let t = *c;
                *c = sum;
                sum = sum.wrapping_add(t);
            }

            proof {
                assert(counts@.len() == 65536);
                assert forall|x: int| 0 <= x < 65536 implies (#[trigger] counts@[x]) as int == cnt_lt(d, nn, x) by { }
            }
            // Stable scatter
            for r in it: src 
                invariant
                    pass < 20, counts@.len() == 65536, nn == src@.len(), nn <= u32::MAX, d == dseq(src@, pass as int), dst@.len() == nn,
                    it.snapshot@.remaining().unref() == src@,
                    it.snapshot@.remaining() == it.history@ + it.iter.remaining(),
                    forall|r: RewriteThin, p: int| 0 <= p < 20 ==> 0 <= #[trigger] digit(r, p) < 65536,
                    forall|x: int| 0 <= x < 65536 ==> (#[trigger] counts@[x]) as int == cnt_lt(d, nn, x) + cnt_eq(d, it.history@.len() as int, x),
                    forall|j: int| 0 <= j < it.history@.len() ==> dst@[pos(d, j)] == #[trigger] src@[j],
            {
                let ghost k = it.history@.len() as int;
                proof { 
                    assert(src@[k] == *r); assert(d[k] == digit(*r, pass as int)); 
                    lemma_pos_in_range(d, k);
                    assert forall|j: int| 0 <= j < k implies #[trigger] pos(d, j) != pos(d, k) by { lemma_pos_injective(d, j, k); }
                    assert forall|j: int| 0 <= j < k implies 0 <= #[trigger] pos(d, j) < nn by { lemma_pos_in_range(d, j); }
                }
                let b = bucket16(r, pass) as usize;
                let idx_u32 = counts[b];
                counts[b] = idx_u32.wrapping_add(1);
                let idx = idx_u32 as usize; // widening u32→usize (safe on 32/64-bit)
                dst[idx] = *r;
                proof {
                    assert(idx as int == pos(d, k));
                    assert forall|x: int| 0 <= x < 65536 implies (#[trigger] counts@[x]) as int == cnt_lt(d, nn, x) + cnt_eq(d, k + 1, x) by { lemma_cnt_bounds(d, nn, x); lemma_cnt_bounds(d, k + 1, x); lemma_cnt_eq_mono(d, k + 1, nn, x); }
                }
            }
            proof {
                lemma_pass(src@, dst@, pass as int);
                lemma_perm_trans(dst@, src@, orig);
            }

            flip = !flip;
        }

        // Ensure final ordering resides in `thin`
        if flip {
            self.thin.copy_from_slice(&self.scratch);
        }
    }
}

} fn main() {}
