use vstd::prelude::*;
use vstd::set_lib::*;
use vstd::seq_lib::*;
verus! {
pub struct R { pub k: int }
pub uninterp spec fn digit(r: R, p: int) -> int;
pub open spec fn cnt_lt(d: Seq<int>, n: int, x: int) -> int decreases n {
    if n <= 0 { 0 } else { cnt_lt(d, n - 1, x) + if d[n - 1] < x { 1int } else { 0int } }
}
pub open spec fn cnt_eq(d: Seq<int>, n: int, x: int) -> int decreases n {
    if n <= 0 { 0 } else { cnt_eq(d, n - 1, x) + if d[n - 1] == x { 1int } else { 0int } }
}
pub open spec fn pos(d: Seq<int>, i: int) -> int { cnt_lt(d, d.len() as int, d[i]) + cnt_eq(d, i, d[i]) }
#[verifier::external_body] pub proof fn lemma_pos_in_range(d: Seq<int>, i: int) requires 0 <= i < d.len() ensures 0 <= pos(d, i) < d.len() {}
#[verifier::external_body] pub proof fn lemma_pos_injective(d: Seq<int>, i: int, j: int) requires 0 <= i < d.len(), 0 <= j < d.len(), i != j ensures pos(d, i) != pos(d, j) {}
#[verifier::external_body] pub proof fn lemma_pos_monotone(d: Seq<int>, i: int, j: int)
    requires 0 <= i < d.len(), 0 <= j < d.len(), d[i] < d[j] || (d[i] == d[j] && i < j) ensures pos(d, i) < pos(d, j) {}
#[verifier::external_body] pub proof fn lemma_pos_surjective(d: Seq<int>, x: int) requires 0 <= x < d.len() ensures exists|i: int| 0 <= i < d.len() && pos(d, i) == x {}

pub open spec fn dseq(s: Seq<R>, p: int) -> Seq<int> { Seq::new(s.len(), |j: int| digit(s[j], p)) }

/// a <= b on digits p-1 .. 0 (digit p-1 most significant)
pub open spec fn le_low(a: R, b: R, p: int) -> bool decreases p {
    if p <= 0 { true } else { digit(a, p - 1) < digit(b, p - 1) || (digit(a, p - 1) == digit(b, p - 1) && le_low(a, b, p - 1)) }
}
pub open spec fn sorted_low(s: Seq<R>, p: int) -> bool { forall|x: int, y: int| 0 <= x < y < s.len() ==> le_low(#[trigger] s[x], #[trigger] s[y], p) }

pub open spec fn perm_witness(a: Seq<R>, b: Seq<R>, f: Seq<int>) -> bool {
    &&& a.len() == b.len() && f.len() == a.len()
    &&& forall|k: int| 0 <= k < f.len() ==> 0 <= #[trigger] f[k] < b.len()
    &&& f.no_duplicates()
    &&& forall|k: int| 0 <= k < a.len() ==> #[trigger] a[k] == b[f[k]]
}
pub open spec fn is_perm(a: Seq<R>, b: Seq<R>) -> bool { exists|f: Seq<int>| perm_witness(a, b, f) }

pub proof fn lemma_perm_refl(a: Seq<R>) ensures is_perm(a, a)
{ let f = Seq::new(a.len(), |k: int| k); assert(perm_witness(a, a, f)); }

pub proof fn lemma_perm_trans(a: Seq<R>, b: Seq<R>, c: Seq<R>)
    requires is_perm(a, b), is_perm(b, c) ensures is_perm(a, c)
{
    let f = choose|f: Seq<int>| perm_witness(a, b, f);
    let g = choose|g: Seq<int>| perm_witness(b, c, g);
    let h = Seq::new(a.len(), |k: int| g[f[k]]);
    assert(perm_witness(a, c, h)) by {
        assert forall|i: int, j: int| 0 <= i < h.len() && 0 <= j < h.len() && i != j implies h[i] != h[j] by { assert(f[i] != f[j]); }
    }
}

/// The pass theorem: a stable counting scatter by digit p turns "sorted by digits p-1..0" into "sorted by digits p..0".
pub proof fn lemma_pass(src: Seq<R>, dst: Seq<R>, p: int)
    requires
        p >= 0, dst.len() == src.len(), sorted_low(src, p),
        forall|i: int| 0 <= i < src.len() ==> dst[pos(dseq(src, p), i)] == #[trigger] src[i],
    ensures sorted_low(dst, p + 1), is_perm(dst, src),
{
    let d = dseq(src, p); let n = src.len() as int;
    // inverse of pos
    let inv = Seq::new(src.len(), |x: int| choose|i: int| 0 <= i < n && pos(d, i) == x);
    assert forall|x: int| 0 <= x < n implies 0 <= #[trigger] inv[x] < n && pos(d, inv[x]) == x by { lemma_pos_surjective(d, x); }
    assert(perm_witness(dst, src, inv)) by {
        assert forall|x: int, y: int| 0 <= x < n && 0 <= y < n && x != y implies inv[x] != inv[y] by { }
        assert forall|x: int| 0 <= x < n implies #[trigger] dst[x] == src[inv[x]] by { assert(dst[pos(d, inv[x])] == src[inv[x]]); }
    }
    assert forall|x: int, y: int| 0 <= x < y < n implies le_low(#[trigger] dst[x], #[trigger] dst[y], p + 1) by {
        let i = inv[x]; let j = inv[y];
        assert(dst[x] == src[i] && dst[y] == src[j]);
        assert(d[i] == digit(src[i], p) && d[j] == digit(src[j], p));
        if d[j] < d[i] || (d[j] == d[i] && j < i) { lemma_pos_monotone(d, j, i); }
        if d[i] == d[j] { assert(i < j); assert(le_low(src[i], src[j], p)); }
    }
}
} fn main() {}
