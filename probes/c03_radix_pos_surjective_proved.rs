use vstd::prelude::*;
use vstd::set_lib::*;
use vstd::seq_lib::*;
verus! {
pub open spec fn cnt_lt(d: Seq<int>, n: int, x: int) -> int decreases n {
    if n <= 0 { 0 } else { cnt_lt(d, n - 1, x) + if d[n - 1] < x { 1int } else { 0int } }
}
pub open spec fn cnt_eq(d: Seq<int>, n: int, x: int) -> int decreases n {
    if n <= 0 { 0 } else { cnt_eq(d, n - 1, x) + if d[n - 1] == x { 1int } else { 0int } }
}
pub open spec fn pos(d: Seq<int>, i: int) -> int { cnt_lt(d, d.len() as int, d[i]) + cnt_eq(d, i, d[i]) }
#[verifier::external_body] pub proof fn lemma_pos_in_range(d: Seq<int>, i: int) requires 0 <= i < d.len() ensures 0 <= pos(d, i) < d.len() {}
#[verifier::external_body] pub proof fn lemma_pos_injective(d: Seq<int>, i: int, j: int) requires 0 <= i < d.len(), 0 <= j < d.len(), i != j ensures pos(d, i) != pos(d, j) {}

pub proof fn lemma_pos_surjective(d: Seq<int>, x: int)
    requires 0 <= x < d.len()
    ensures exists|i: int| 0 <= i < d.len() && pos(d, i) == x
{
    let n = d.len() as int;
    let p = Seq::new(d.len(), |i: int| pos(d, i));
    assert(p.no_duplicates()) by {
        assert forall|i: int, j: int| 0 <= i < p.len() && 0 <= j < p.len() && i != j implies p[i] != p[j] by { lemma_pos_injective(d, i, j); }
    }
    p.unique_seq_to_set();
    lemma_int_range(0, n);
    let r = set_int_range(0, n);
    assert(p.to_set().subset_of(r)) by {
        assert forall|y: int| p.to_set().contains(y) implies r.contains(y) by {
            let i = choose|i: int| 0 <= i < p.len() && p[i] == y; lemma_pos_in_range(d, i);
        }
    }
    lemma_subset_equality(p.to_set(), r);
    assert(p.to_set().contains(x));
    let i = choose|i: int| 0 <= i < p.len() && p[i] == x;
    assert(pos(d, i) == x);
}
} fn main() {}
