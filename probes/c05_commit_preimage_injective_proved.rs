use vstd::prelude::*;
use vstd::bytes::*;
verus! {
pub type Hash = [u8; 32];

/// enc(parents, sr, pd, pol) = tag ++ ver ++ le64(|parents|) ++ flat(parents) ++ sr ++ pd ++ le32(pol)
pub open spec fn flat(s: Seq<Seq<u8>>) -> Seq<u8> decreases s.len() {
    if s.len() == 0 { Seq::empty() } else { flat(s.drop_last()) + s.last() }
}
pub open spec fn all32(s: Seq<Seq<u8>>) -> bool { forall|i: int| 0 <= i < s.len() ==> (#[trigger] s[i]).len() == 32 }
pub open spec fn enc(tag: Seq<u8>, ps: Seq<Seq<u8>>, sr: Seq<u8>, pd: Seq<u8>, pol: u32) -> Seq<u8> {
    tag + spec_u64_to_le_bytes(ps.len() as u64) + flat(ps) + sr + pd + spec_u32_to_le_bytes(pol)
}
proof fn lemma_flat_len(s: Seq<Seq<u8>>) requires all32(s) ensures flat(s).len() == 32 * s.len() decreases s.len()
{ if s.len() > 0 { assert(all32(s.drop_last())); lemma_flat_len(s.drop_last()); } }

proof fn lemma_flat_inj(a: Seq<Seq<u8>>, b: Seq<Seq<u8>>)
    requires all32(a), all32(b), a.len() == b.len(), flat(a) == flat(b)
    ensures a == b
    decreases a.len()
{
    if a.len() > 0 {
        assert(all32(a.drop_last())); assert(all32(b.drop_last()));
        lemma_flat_len(a.drop_last()); lemma_flat_len(b.drop_last());
        let n = 32 * (a.len() - 1);
        assert(flat(a).subrange(0, n as int) =~= flat(a.drop_last()));
        assert(flat(b).subrange(0, n as int) =~= flat(b.drop_last()));
        assert(flat(a).subrange(n as int, n + 32) =~= a.last());
        assert(flat(b).subrange(n as int, n + 32) =~= b.last());
        lemma_flat_inj(a.drop_last(), b.drop_last());
        assert(a =~= a.drop_last().push(a.last()));
        assert(b =~= b.drop_last().push(b.last()));
    } else { assert(a =~= b); }
}

/// "commit id binds parents, state root, patch digest, policy": the hashed pre-image is injective.
proof fn theorem_commit_preimage_injective(tag: Seq<u8>, p1: Seq<Seq<u8>>, s1: Seq<u8>, d1: Seq<u8>, pol1: u32, p2: Seq<Seq<u8>>, s2: Seq<u8>, d2: Seq<u8>, pol2: u32)
    requires all32(p1), all32(p2), s1.len() == 32, s2.len() == 32, d1.len() == 32, d2.len() == 32,
        p1.len() <= u64::MAX, p2.len() <= u64::MAX,
        enc(tag, p1, s1, d1, pol1) == enc(tag, p2, s2, d2, pol2),
    ensures p1 == p2, s1 == s2, d1 == d2, pol1 == pol2,
{
    let e1 = enc(tag, p1, s1, d1, pol1); let e2 = enc(tag, p2, s2, d2, pol2);
    let t = tag.len() as int;
    lemma_auto_spec_u64_to_from_le_bytes();
    lemma_auto_spec_u32_to_from_le_bytes();
    lemma_flat_len(p1); lemma_flat_len(p2);
    let l1 = spec_u64_to_le_bytes(p1.len() as u64); let l2 = spec_u64_to_le_bytes(p2.len() as u64);
    assert(e1.subrange(t, t + 8) =~= l1);
    assert(e2.subrange(t, t + 8) =~= l2);
    assert(spec_u64_from_le_bytes(l1) == p1.len() as u64 && spec_u64_from_le_bytes(l2) == p2.len() as u64);
    assert(p1.len() == p2.len());
    let n = 32 * p1.len() as int;
    assert(e1.subrange(t + 8, t + 8 + n) =~= flat(p1));
    assert(e2.subrange(t + 8, t + 8 + n) =~= flat(p2));
    lemma_flat_inj(p1, p2);
    assert(e1.subrange(t + 8 + n, t + 8 + n + 32) =~= s1);
    assert(e2.subrange(t + 8 + n, t + 8 + n + 32) =~= s2);
    assert(e1.subrange(t + 8 + n + 32, t + 8 + n + 64) =~= d1);
    assert(e2.subrange(t + 8 + n + 32, t + 8 + n + 64) =~= d2);
    let q1 = spec_u32_to_le_bytes(pol1); let q2 = spec_u32_to_le_bytes(pol2);
    assert(e1.subrange(t + 8 + n + 64, t + 8 + n + 68) =~= q1);
    assert(e2.subrange(t + 8 + n + 64, t + 8 + n + 68) =~= q2);
    assert(spec_u32_from_le_bytes(q1) == pol1 && spec_u32_from_le_bytes(q2) == pol2);
}
} fn main() {}
