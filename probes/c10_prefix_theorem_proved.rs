use vstd::prelude::*;
use vstd::bytes::*;
verus! {
global layout usize is size == 8;

pub type Hash = [u8; 32];
pub struct WalFrame { pub x: u64 }
pub struct WalTransactionCommit { pub y: u64 }
pub enum WalDecodeError { UnexpectedEof, Other }
pub enum WalStoreError { SegmentRecordDigestMismatch, Decode(WalDecodeError), UnknownDiskRecordKind(u8) }
impl vstd::std_specs::convert::FromSpecImpl<WalDecodeError> for WalStoreError {
    open spec fn obeys_from_spec() -> bool { true }
    open spec fn from_spec(e: WalDecodeError) -> WalStoreError { WalStoreError::Decode(e) }
}
impl From<WalDecodeError> for WalStoreError { fn from(e: WalDecodeError) -> Self { WalStoreError::Decode(e) } }

pub uninterp spec fn spec_decode_frame(p: Seq<u8>) -> Option<WalFrame>;
pub uninterp spec fn spec_decode_commit(p: Seq<u8>) -> Option<WalTransactionCommit>;
pub uninterp spec fn spec_digest(kind: u8, p: Seq<u8>) -> Seq<u8>;
#[verifier::external_body] fn decode_frame(p: &[u8]) -> (r: Result<WalFrame, WalDecodeError>) 
    ensures r is Ok <==> spec_decode_frame(p@) is Some, r is Ok ==> r->Ok_0 == spec_decode_frame(p@)->0 { unimplemented!() }
#[verifier::external_body] fn decode_commit(p: &[u8]) -> (r: Result<WalTransactionCommit, WalDecodeError>) 
    ensures r is Ok <==> spec_decode_commit(p@) is Some, r is Ok ==> r->Ok_0 == spec_decode_commit(p@)->0 { unimplemented!() }
#[verifier::external_body] fn disk_record_digest(kind: u8, payload: &[u8]) -> (r: Hash) ensures r@ == spec_digest(kind, payload@) { unimplemented!() }
#[verifier::external_body] fn shim_u64_from_le(b: [u8; 8]) -> (r: u64) ensures r == spec_u64_from_le_bytes(b@) { u64::from_le_bytes(b) }
const WAL_SEGMENT_RECORD_MAGIC: &'static [u8; 8] = b"ECWALR1!";

// ---- reference parser written from the record format (docs/topics/WAL.md), not from the code ----
pub enum P { Bad, Ok_ { frames: Seq<WalFrame>, commits: Seq<WalTransactionCommit>, torn: bool } }

pub closed spec fn magic() -> Seq<u8> { WAL_SEGMENT_RECORD_MAGIC@ }

pub closed spec fn parse(b: Seq<u8>) -> P
    decreases b.len()
{
    if b.len() == 0 { P::Ok_ { frames: seq![], commits: seq![], torn: false } }
    else if b.len() < 17 { P::Ok_ { frames: seq![], commits: seq![], torn: true } }
    else if b.subrange(0, 8) != magic() { P::Bad }
    else {
        let kind = b[8];
        let len = spec_u64_from_le_bytes(b.subrange(9, 17)) as int;
        if 17 + len + 32 > b.len() { P::Ok_ { frames: seq![], commits: seq![], torn: true } }
        else {
            let payload = b.subrange(17, 17 + len);
            let digest = b.subrange(17 + len, 17 + len + 32);
            if digest != spec_digest(kind, payload) { P::Bad }
            else if kind == 1 {
                match spec_decode_frame(payload) {
                    None => P::Bad,
                    Some(f) => match parse(b.subrange(17 + len + 32, b.len() as int)) {
                        P::Bad => P::Bad,
                        P::Ok_ { frames, commits, torn } => P::Ok_ { frames: seq![f] + frames, commits, torn },
                    }
                }
            } else if kind == 2 {
                match spec_decode_commit(payload) {
                    None => P::Bad,
                    Some(c) => match parse(b.subrange(17 + len + 32, b.len() as int)) {
                        P::Bad => P::Bad,
                        P::Ok_ { frames, commits, torn } => P::Ok_ { frames, commits: seq![c] + commits, torn },
                    }
                }
            } else { P::Bad }
        }
    }
}

pub open spec fn prepend(fs: Seq<WalFrame>, cs: Seq<WalTransactionCommit>, p: P) -> P {
    match p { P::Bad => P::Bad, P::Ok_ { frames, commits, torn } => P::Ok_ { frames: fs + frames, commits: cs + commits, torn } }
}

proof fn lemma_prepend_empty(p: P) ensures prepend(seq![], seq![], p) == p {
    match p { P::Bad => {}, P::Ok_ { frames, commits, torn } => { assert(Seq::<WalFrame>::empty() + frames == frames); assert(Seq::<WalTransactionCommit>::empty() + commits == commits); } }
}

proof fn lemma_prepend_ok(fs: Seq<WalFrame>, cs: Seq<WalTransactionCommit>, torn: bool)
    ensures prepend(fs, cs, P::Ok_ { frames: seq![], commits: seq![], torn }) == (P::Ok_ { frames: fs, commits: cs, torn })
{ assert(fs + Seq::<WalFrame>::empty() == fs); assert(cs + Seq::<WalTransactionCommit>::empty() == cs); }

proof fn lemma_prepend_frame(fs: Seq<WalFrame>, cs: Seq<WalTransactionCommit>, f: WalFrame, p: P)
    ensures prepend(fs, cs, prepend(seq![f], seq![], p)) == prepend(fs.push(f), cs, p)
{ match p { P::Bad => {}, P::Ok_ { frames, commits, torn } => {
    assert(fs + (seq![f] + frames) == fs.push(f) + frames);
    assert(cs + (Seq::<WalTransactionCommit>::empty() + commits) == cs + commits); } } }

proof fn lemma_prepend_commit(fs: Seq<WalFrame>, cs: Seq<WalTransactionCommit>, c: WalTransactionCommit, p: P)
    ensures prepend(fs, cs, prepend(seq![], seq![c], p)) == prepend(fs, cs.push(c), p)
{ match p { P::Bad => {}, P::Ok_ { frames, commits, torn } => {
    assert(cs + (seq![c] + commits) == cs.push(c) + commits);
    assert(fs + (Seq::<WalFrame>::empty() + frames) == fs + frames); } } }

fn read_segment_bytes(
    bytes: &[u8],
) -> (res: Result<(Vec<WalFrame>, Vec<WalTransactionCommit>, bool), WalStoreError>)
    ensures
        res is Err <==> parse(bytes@) is Bad,
        res is Ok ==> parse(bytes@) == (P::Ok_ { frames: res->Ok_0.0@, commits: res->Ok_0.1@, torn: res->Ok_0.2 }),
{
    let mut offset = 0usize;
    let mut frames = Vec::new();
    let mut commits = Vec::new();
    let mut torn_tail = false;
    proof {
        assert(bytes@.subrange(0, bytes@.len() as int) == bytes@);
        lemma_prepend_empty(parse(bytes@));
    }
    while offset < bytes.len() 
        invariant_except_break
            !torn_tail,
            parse(bytes@) == prepend(frames@, commits@, parse(bytes@.subrange(offset as int, bytes@.len() as int))),
        invariant
            offset <= bytes.len(),
        ensures
            torn_tail ==> parse(bytes@) == (P::Ok_ { frames: frames@, commits: commits@, torn: true }),
            !torn_tail ==> offset == bytes.len() && parse(bytes@) == prepend(frames@, commits@, parse(bytes@.subrange(offset as int, bytes@.len() as int))),
        decreases bytes.len() - offset,
    {
        let ghost rest = bytes@.subrange(offset as int, bytes@.len() as int);
        let ghost off0 = offset;
        let header_len = WAL_SEGMENT_RECORD_MAGIC.len() + 1 + 8;
        let Some(header_end) = offset.checked_add(header_len) else {
            torn_tail = true;
            proof { assert(rest.len() < 17); lemma_prepend_ok(frames@, commits@, true); }
            break;
        };
        if header_end > bytes.len() {
            torn_tail = true;
            proof { assert(rest.len() < 17); lemma_prepend_ok(frames@, commits@, true); }
            break;
        }
        if bytes.get(offset..offset + WAL_SEGMENT_RECORD_MAGIC.len())
            != Some(WAL_SEGMENT_RECORD_MAGIC.as_slice())
        {
            proof { assert(rest.subrange(0, 8) == bytes@.subrange(offset as int, offset + 8)); }
            return Err(WalStoreError::SegmentRecordDigestMismatch);
        }
        offset += WAL_SEGMENT_RECORD_MAGIC.len();
        proof { assert(rest.subrange(0, 8) == bytes@.subrange(off0 as int, off0 + 8)); assert(WAL_SEGMENT_RECORD_MAGIC@ == magic()); }
        let kind = bytes[offset];
        offset += 1;
        let mut len = [0; 8];
        len.copy_from_slice(&bytes[offset..offset + 8]);
        offset += 8;
        let payload_len = match usize::try_from(shim_u64_from_le(len)) {
            Ok(value) => value,
            Err(_) => return Err(WalStoreError::Decode(WalDecodeError::UnexpectedEof)),
        };
        proof {
            assert(rest[8] == kind);
            assert(rest.subrange(9, 17) == bytes@.subrange(off0 + 9, off0 + 17));
            assert(len@ == rest.subrange(9, 17));
            assert(payload_len as int == spec_u64_from_le_bytes(rest.subrange(9, 17)) as int);
            assert(rest.len() == bytes@.len() - off0);
            assert(rest.len() >= 17);
            assert(rest.subrange(0, 8) == magic());
            assert(offset == off0 + 17);
        }
        let Some(payload_end) = offset.checked_add(payload_len) else {
            torn_tail = true;
            proof { assert(17 + payload_len as int + 32 > rest.len()); assert(parse(rest) == (P::Ok_ { frames: seq![], commits: seq![], torn: true })); lemma_prepend_ok(frames@, commits@, true); }
            break;
        };
        let Some(digest_end) = payload_end.checked_add(32) else {
            torn_tail = true;
            proof { assert(17 + payload_len as int + 32 > rest.len()); assert(parse(rest) == (P::Ok_ { frames: seq![], commits: seq![], torn: true })); lemma_prepend_ok(frames@, commits@, true); }
            break;
        };
        if digest_end > bytes.len() {
            torn_tail = true;
            proof { assert(17 + payload_len as int + 32 > rest.len()); assert(parse(rest) == (P::Ok_ { frames: seq![], commits: seq![], torn: true })); lemma_prepend_ok(frames@, commits@, true); }
            break;
        }
        let payload = &bytes[offset..payload_end];
        let digest = &bytes[payload_end..digest_end];
        proof {
            assert(payload@ == rest.subrange(17, 17 + payload_len as int));
            assert(digest@ == rest.subrange(17 + payload_len as int, 17 + payload_len as int + 32));
        }
        let ghost rest2 = bytes@.subrange(digest_end as int, bytes@.len() as int);
        proof { assert(rest2 == rest.subrange(17 + payload_len as int + 32, rest.len() as int)); }
        let ghost fs0 = frames@; let ghost cs0 = commits@;
        if digest != disk_record_digest(kind, payload) {
            return Err(WalStoreError::SegmentRecordDigestMismatch);
        }
        match kind {
            1 => frames.push(decode_frame(payload)?),
            2 => commits.push(decode_commit(payload)?),
            other => return Err(WalStoreError::UnknownDiskRecordKind(other)),
        }
        offset = digest_end;
        proof {
            assert(17 + payload_len as int + 32 <= rest.len());
            assert(rest.subrange(17 + payload_len as int, 17 + payload_len as int + 32) == spec_digest(kind, payload@));
            if kind == 1 {
                let f = spec_decode_frame(payload@)->0;
                assert(frames@ == fs0.push(f)); assert(commits@ == cs0);
                assert(parse(rest) == prepend(seq![f], seq![], parse(rest2)));
                lemma_prepend_frame(fs0, cs0, f, parse(rest2));
            } else {
                let c = spec_decode_commit(payload@)->0;
                assert(kind == 2);
                assert(commits@ == cs0.push(c)); assert(frames@ == fs0);
                assert(parse(rest) == prepend(seq![], seq![c], parse(rest2)));
                lemma_prepend_commit(fs0, cs0, c, parse(rest2));
            }
        }
    }
    proof { 
        if !torn_tail { assert(bytes@.subrange(offset as int, bytes@.len() as int).len() == 0); lemma_prepend_ok(frames@, commits@, false); }
    }
    Ok((frames, commits, torn_tail))
}

// ---------------- spec-level theorems about the reference parser ----------------
pub struct Rec { pub kind: u8, pub payload: Seq<u8> }
pub open spec fn rec_bytes(r: Rec) -> Seq<u8> {
    magic() + seq![r.kind] + spec_u64_to_le_bytes(r.payload.len() as u64) + r.payload + spec_digest(r.kind, r.payload)
}
pub open spec fn seg(rs: Seq<Rec>) -> Seq<u8> decreases rs.len() {
    if rs.len() == 0 { Seq::empty() } else { rec_bytes(rs[0]) + seg(rs.drop_first()) }
}
pub open spec fn wf_rec(r: Rec) -> bool {
    &&& r.payload.len() <= u64::MAX
    &&& spec_digest(r.kind, r.payload).len() == 32
    &&& (r.kind == 1 && spec_decode_frame(r.payload) is Some) || (r.kind == 2 && spec_decode_commit(r.payload) is Some)
}
pub open spec fn wf_recs(rs: Seq<Rec>) -> bool { forall|i: int| 0 <= i < rs.len() ==> wf_rec(#[trigger] rs[i]) }
pub open spec fn frames_of(rs: Seq<Rec>) -> Seq<WalFrame> decreases rs.len() {
    if rs.len() == 0 { Seq::empty() } else if rs[0].kind == 1 { seq![spec_decode_frame(rs[0].payload)->0] + frames_of(rs.drop_first()) } else { frames_of(rs.drop_first()) }
}
pub open spec fn commits_of(rs: Seq<Rec>) -> Seq<WalTransactionCommit> decreases rs.len() {
    if rs.len() == 0 { Seq::empty() } else if rs[0].kind == 2 { seq![spec_decode_commit(rs[0].payload)->0] + commits_of(rs.drop_first()) } else { commits_of(rs.drop_first()) }
}
/// number of whole records of `rs` contained in the first `n` bytes of seg(rs)
pub open spec fn whole(rs: Seq<Rec>, n: int) -> int decreases rs.len() {
    if rs.len() == 0 { 0 } else if n >= rec_bytes(rs[0]).len() { 1 + whole(rs.drop_first(), n - rec_bytes(rs[0]).len()) } else { 0 }
}

/// PREFIX THEOREM (C10, record layer): for every cut position n the parser returns exactly the whole
/// records contained in the first n bytes, flags a torn tail iff n is not a record boundary, never errs.
pub proof fn theorem_prefix(rs: Seq<Rec>, n: int)
    requires wf_recs(rs), 0 <= n <= seg(rs).len(),
    ensures ({
        let j = whole(rs, n);
        &&& 0 <= j <= rs.len()
        &&& seg(rs.take(j)).len() <= n
        &&& parse(seg(rs).take(n)) == (P::Ok_ { frames: frames_of(rs.take(j)), commits: commits_of(rs.take(j)), torn: n != seg(rs.take(j)).len() })
    }),
    decreases rs.len(),
{
    let b = seg(rs).take(n);
    if rs.len() == 0 {
        assert(rs.take(0) =~= rs);
        assert(b =~= Seq::<u8>::empty());
    } else {
        let r = rs[0]; let rest = rs.drop_first();
        let rb = rec_bytes(r); let L = rb.len() as int; let len = r.payload.len() as int;
        assert(wf_rec(r));
        assert(magic().len() == 8);
        lemma_auto_spec_u64_to_from_le_bytes();
        assert(spec_u64_to_le_bytes(len as u64).len() == 8);
        assert(L == 8 + 1 + 8 + len + 32);
        assert(seg(rs) == rb + seg(rest));
        if n < L {
            assert(whole(rs, n) == 0);
            assert(rs.take(0) =~= Seq::<Rec>::empty());
            assert(seg(rs.take(0)) =~= Seq::<u8>::empty());
            assert(frames_of(rs.take(0)) =~= Seq::<WalFrame>::empty());
            assert(commits_of(rs.take(0)) =~= Seq::<WalTransactionCommit>::empty());
            if n == 0 { assert(b =~= Seq::<u8>::empty()); }
            else if n < 17 { assert(b.len() == n); }
            else {
                assert(b.len() == n);
                assert(b.subrange(0, 8) =~= magic());
                assert(b[8] == r.kind);
                assert(b.subrange(9, 17) =~= spec_u64_to_le_bytes(len as u64));
                assert(spec_u64_from_le_bytes(b.subrange(9, 17)) as int == len);
            }
        } else {
            assert(wf_recs(rest)) by { assert forall|i: int| 0 <= i < rest.len() implies wf_rec(#[trigger] rest[i]) by { assert(rest[i] == rs[i + 1]); } }
            assert(seg(rest).len() == seg(rs).len() - L);
            theorem_prefix(rest, n - L);
            let j1 = whole(rest, n - L);
            assert(whole(rs, n) == 1 + j1);
            assert(b.len() == n);
            assert(b.subrange(0, 8) =~= magic());
            assert(b[8] == r.kind);
            assert(b.subrange(9, 17) =~= spec_u64_to_le_bytes(len as u64));
            assert(spec_u64_from_le_bytes(b.subrange(9, 17)) as int == len);
            assert(b.subrange(17, 17 + len) =~= r.payload);
            assert(b.subrange(17 + len, 17 + len + 32) =~= spec_digest(r.kind, r.payload));
            assert(b.subrange(17 + len + 32, b.len() as int) =~= seg(rest).take(n - L));
            assert(rs.take(1 + j1) =~= seq![r] + rest.take(j1));
            assert(rs.take(1 + j1).drop_first() =~= rest.take(j1));
            assert(seg(rs.take(1 + j1)) == rb + seg(rest.take(j1)));
            if r.kind == 1 {
                assert(frames_of(rs.take(1 + j1)) == seq![spec_decode_frame(r.payload)->0] + frames_of(rest.take(j1)));
                assert(commits_of(rs.take(1 + j1)) == commits_of(rest.take(j1)));
            } else {
                assert(commits_of(rs.take(1 + j1)) == seq![spec_decode_commit(r.payload)->0] + commits_of(rest.take(j1)));
                assert(frames_of(rs.take(1 + j1)) == frames_of(rest.take(j1)));
            }
        }
    }
}
} fn main() {}
