use vstd::prelude::*;
use vstd::std_specs::iter::IteratorSpec;
use std::collections::{BTreeMap, BTreeSet};
verus! {
broadcast use vstd::std_specs::btree::group_btree_axioms;
pub type Hash = [u8; 32];
/// Strongly typed identifier for a node in the skeleton graph.
///
/// `NodeId` is an opaque 32-byte identifier (`Hash`). Many nodes in Echo use
/// stable, label-derived ids via [`make_node_id`] (`blake3("node:" || label)`),
/// but this is a convention, not a global constraint.
///
/// Other subsystems may construct content-addressed `NodeId`s derived from
/// different domain-separated hashes (for example, inbox/ledger event nodes
/// keyed by `intent_id = blake3("intent:" || intent_bytes)`).
///
/// Tooling must not assume that every `NodeId` corresponds to a human-readable
/// label, or that ids are reversible back into strings.
#[repr(transparent)]
#[derive(Clone, Copy, PartialEq, Eq, PartialOrd, Ord, Hash, Debug)]
pub struct NodeId(pub Hash);
/// Identifier for a directed edge within the graph.
#[repr(transparent)]
#[derive(Clone, Copy, PartialEq, Eq, PartialOrd, Ord, Hash, Debug)]
pub struct EdgeId(pub Hash);
/// Strongly typed identifier for a WARP instance.
///
/// A `WarpId` namespaces node/edge ids for Stage B1 "flattened indirection"
/// descended attachments: nodes and edges live in instance-scoped graphs
/// addressed by `(warp_id, local_id)`.
#[repr(transparent)]
#[derive(Clone, Copy, PartialEq, Eq, PartialOrd, Ord, Hash, Debug)]
pub struct WarpId(pub Hash);
/// Compact, process-local rule identifier used on hot paths.
///
/// The engine maps canonical 256-bit rule ids (family ids) to compact u32
/// handles at registration time. These handles are never serialized; they are
/// purely an in-process acceleration.
#[derive(Debug, Clone, Copy, PartialEq, Eq, PartialOrd, Ord, Hash)]
pub struct CompactRuleId(pub u32);
/// Instance-scoped identifier for a node.
#[derive(Clone, Copy, PartialEq, Eq, PartialOrd, Ord, Hash, Debug)]
pub struct NodeKey {
    /// Warp instance that namespaces the local node id.
    pub warp_id: WarpId,
    /// Local node identifier within the instance.
    pub local_id: NodeId,
}
/// Instance-scoped identifier for an edge.
#[derive(Clone, Copy, PartialEq, Eq, PartialOrd, Ord, Hash, Debug)]
pub struct EdgeKey {
    /// Warp instance that namespaces the local edge id.
    pub warp_id: WarpId,
    /// Local edge identifier within the instance.
    pub local_id: EdgeId,
}
/// Attachment plane selector.
///
/// In Paper I notation, vertex attachments are `α` and edge attachments are `β`.
#[derive(Debug, Clone, Copy, PartialEq, Eq, PartialOrd, Ord, Hash)]
pub enum AttachmentPlane {
    /// Vertex/node attachment plane (`α`).
    Alpha,
    /// Edge attachment plane (`β`).
    Beta,
}
/// Owner identity for an attachment slot.
#[derive(Debug, Clone, Copy, PartialEq, Eq, PartialOrd, Ord, Hash)]
pub enum AttachmentOwner {
    /// Attachment owned by a node.
    Node(NodeKey),
    /// Attachment owned by an edge.
    Edge(EdgeKey),
}
/// First-class identity for an attachment slot.
///
/// This is the key used for Stage B1 “descent chain” footprinting and slicing:
/// changes to an attachment slot (especially `Descend`) must invalidate matches
/// inside descendant instances deterministically.
#[derive(Debug, Clone, Copy, PartialEq, Eq, PartialOrd, Ord, Hash)]
pub struct AttachmentKey {
    /// Owner of the slot.
    pub owner: AttachmentOwner,
    /// Attachment plane selector.
    pub plane: AttachmentPlane,
}
use AttachmentKey as _AK; pub type PortKey = u64; pub type WarpScopedPortKey = (WarpId, PortKey);
/// Ordered set of warp-scoped node identifiers.
///
/// Each entry is a `NodeKey` containing both `warp_id` and `local_id`, ensuring
/// nodes in different warps don't cause false conflicts during scheduling.
#[derive(Debug, Clone, PartialEq, Eq, Default)]
pub struct NodeSet(BTreeSet<NodeKey>);
/// Ordered set of warp-scoped edge identifiers.
///
/// Each entry is an `EdgeKey` containing both `warp_id` and `local_id`, ensuring
/// edges in different warps don't cause false conflicts during scheduling.
#[derive(Debug, Clone, PartialEq, Eq, Default)]
pub struct EdgeSet(BTreeSet<EdgeKey>);
/// Ordered set of warp-scoped boundary ports.
///
/// Each entry is a `(WarpId, PortKey)` tuple ensuring ports in different warps
/// don't cause false conflicts during scheduling.
#[derive(Debug, Clone, PartialEq, Eq, Default)]
pub struct PortSet(BTreeSet<WarpScopedPortKey>);
/// Ordered set of attachment slots.
///
/// [`AttachmentKey`] is already warp-scoped (contains [`NodeKey`] or [`EdgeKey`]).
#[derive(Debug, Clone, PartialEq, Eq, Default)]
pub struct AttachmentSet(BTreeSet<AttachmentKey>);
/// Footprint capturing the read/write sets and factor mask of a rewrite.
///
/// All resource sets are warp-scoped to prevent false conflicts between
/// rewrites in different warps that happen to touch resources with the
/// same local identifier.
#[derive(Debug, Clone, PartialEq, Eq, Default)]
pub struct Footprint {
    /// Nodes read by the rewrite (warp-scoped).
    pub n_read: NodeSet,
    /// Nodes written/created/deleted by the rewrite (warp-scoped).
    pub n_write: NodeSet,
    /// Edges read by the rewrite (warp-scoped).
    pub e_read: EdgeSet,
    /// Edges written/created/deleted by the rewrite (warp-scoped).
    pub e_write: EdgeSet,
    /// Attachment slots read by the rewrite.
    pub a_read: AttachmentSet,
    /// Attachment slots written by the rewrite.
    pub a_write: AttachmentSet,
    /// Boundary input ports touched (warp-scoped).
    pub b_in: PortSet,
    /// Boundary output ports touched (warp-scoped).
    pub b_out: PortSet,
    /// Coarse partition mask; used as an O(1) prefilter.
    pub factor_mask: u64,
}
/// Origin metadata for a collected operation.
///
/// This metadata supports future canonical tie-breaking when multiple
/// rules produce semantically equivalent operations in the same tick.
#[derive(Clone, Copy, Debug, Default, PartialEq, Eq, PartialOrd, Ord, Hash)]
pub struct OpOrigin {
    /// Intent ID (for future canonical ordering).
    pub intent_id: u64,
    /// Rule ID (compact form).
    pub rule_id: u32,
    /// Match index within rule.
    pub match_ix: u32,
    /// Operation index within this scoped emission (auto-assigned by `ScopedDelta`).
    pub op_ix: u32,
}
/// Generation-stamped set for O(1) conflict detection.
///
/// This data structure allows O(1) conflict checking without clearing hash tables
/// between transactions by using generation counters. Each transaction gets a new
/// generation, and we track which generation last saw each key.
#[derive(Debug)]
pub(crate) struct GenSet<K> {
    gen: u32,
    seen: BTreeMap<K, u32>,
}
/// Active footprint tracking using generation-stamped sets for O(1) conflict detection.
///
/// All resource keys are warp-scoped: they include both `warp_id` and local identifiers.
/// This ensures rewrites in different warps don't cause false conflicts when they
/// happen to touch resources with the same local ID.
#[derive(Debug)]
pub(crate) struct ActiveFootprints {
    /// Nodes written by reserved rewrites (warp-scoped)
    nodes_written: GenSet<NodeKey>,
    /// Nodes read by reserved rewrites (warp-scoped)
    nodes_read: GenSet<NodeKey>,
    /// Edges written by reserved rewrites (warp-scoped)
    edges_written: GenSet<EdgeKey>,
    /// Edges read by reserved rewrites (warp-scoped)
    edges_read: GenSet<EdgeKey>,
    /// Attachments written by reserved rewrites (already warp-scoped via NodeKey/EdgeKey)
    attachments_written: GenSet<AttachmentKey>,
    /// Attachments read by reserved rewrites (already warp-scoped via NodeKey/EdgeKey)
    attachments_read: GenSet<AttachmentKey>,
    /// Boundary ports touched - warp-scoped (both `b_in` and `b_out`, since any intersection conflicts)
    ports: GenSet<WarpScopedPortKey>,
}
/// Phase of a pending rewrite in the lock-free scheduler.
#[derive(Debug, Clone, Copy, PartialEq, Eq)]
pub(crate) enum RewritePhase {
    /// Match found and footprint computed.
    Matched,
    /// Passed independence checks and reserved.
    #[allow(dead_code)]
    Reserved,
    /// Successfully applied.
    #[allow(dead_code)]
    Committed,
    /// Aborted due to conflict or validation failure.
    #[allow(dead_code)]
    Aborted,
}
/// Internal representation of a rewrite waiting to be applied.
#[derive(Debug, Clone)]
pub(crate) struct PendingRewrite {
    /// Identifier of the rule to execute.
    pub rule_id: Hash,
    /// Compact in-process rule handle used on hot paths.
    pub compact_rule: CompactRuleId,
    /// Scope hash used for deterministic ordering (full 32 bytes).
    pub scope_hash: Hash,
    /// Scope node supplied when `apply` was invoked.
    pub scope: NodeKey,
    /// Footprint used for independence checks and conflict resolution.
    pub footprint: Footprint,
    /// State machine phase for the rewrite.
    pub phase: RewritePhase,
    /// Origin metadata for op provenance tracking.
    pub origin: OpOrigin,
}
impl<K: Ord + Copy> GenSet<K> {
    pub closed spec fn view(&self) -> Set<K> { self.seen@.dom().filter(|k: K| self.seen@[k] == self.gen) }

    /// Returns true if `key` was marked in the current generation.
    #[inline]
    pub fn contains(&self, key: K) -> (b: bool)
        requires vstd::laws_cmp::obeys_cmp::<K>(),
        ensures b == self@.contains(key)
    {
        matches!(self.seen.get(&key), Some(g) if *g == self.gen)
    }
    /// Marks `key` as seen in the current generation.
    #[inline]
    pub fn mark(&mut self, key: K)
        requires vstd::laws_cmp::obeys_cmp::<K>(),
        ensures final(self)@ == old(self)@.insert(key)
    {
        self.seen.insert(key, self.gen);
    }
}

pub struct Fp { pub nr: Set<NodeKey>, pub nw: Set<NodeKey>, pub er: Set<EdgeKey>, pub ew: Set<EdgeKey>,
                pub ar: Set<AttachmentKey>, pub aw: Set<AttachmentKey>, pub bi: Set<WarpScopedPortKey>, pub bo: Set<WarpScopedPortKey> }
pub struct Act { pub nw: Set<NodeKey>, pub nr: Set<NodeKey>, pub ew: Set<EdgeKey>, pub er: Set<EdgeKey>,
                 pub aw: Set<AttachmentKey>, pub ar: Set<AttachmentKey>, pub ports: Set<WarpScopedPortKey> }
impl Footprint { pub closed spec fn view(&self) -> Fp { Fp { nr: self.n_read.0@, nw: self.n_write.0@, er: self.e_read.0@, ew: self.e_write.0@,
    ar: self.a_read.0@, aw: self.a_write.0@, bi: self.b_in.0@, bo: self.b_out.0@ } } }
impl ActiveFootprints { pub closed spec fn view(&self) -> Act { Act { nw: self.nodes_written@, nr: self.nodes_read@, ew: self.edges_written@, er: self.edges_read@,
    aw: self.attachments_written@, ar: self.attachments_read@, ports: self.ports@ } } }
/// Statement of C03: a write overlapping another's read or write of the same node, edge or attachment, or any shared boundary port.
pub open spec fn conflict_with_active(fp: Fp, a: Act) -> bool {
    ||| !fp.nw.disjoint(a.nw + a.nr) ||| !fp.nr.disjoint(a.nw)
    ||| !fp.ew.disjoint(a.ew + a.er) ||| !fp.er.disjoint(a.ew)
    ||| !fp.aw.disjoint(a.aw + a.ar) ||| !fp.ar.disjoint(a.aw)
    ||| !(fp.bi + fp.bo).disjoint(a.ports)
}
pub open spec fn add_fp(a: Act, fp: Fp) -> Act {
    Act { nw: a.nw + fp.nw, nr: a.nr + fp.nr, ew: a.ew + fp.ew, er: a.er + fp.er, aw: a.aw + fp.aw, ar: a.ar + fp.ar, ports: a.ports + fp.bi + fp.bo }
}

pub proof fn lemma_push_to_set<T>(h: Seq<&T>, x: &T)
    ensures h.push(x).unref().to_set() == h.unref().to_set().insert(*x)
{
    let a = h.push(x).unref(); let b = h.unref();
    assert(a == b.push(*x));
    assert forall|k: T| a.to_set().contains(k) <==> b.to_set().insert(*x).contains(k) by {
        if a.to_set().contains(k) { let i = choose|i: int| 0 <= i < a.len() && a[i] == k; if i < b.len() { assert(b[i] == k); } }
        if b.to_set().contains(k) { let i = choose|i: int| 0 <= i < b.len() && b[i] == k; assert(a[i] == k); }
        if k == *x { assert(a[b.len() as int] == k); }
    }
    assert(a.to_set() =~= b.to_set().insert(*x));
}
pub struct RadixScheduler {} impl RadixScheduler {
    #[inline]
    fn has_conflict(active: &ActiveFootprints, pr: &PendingRewrite) -> (r: bool)
        requires vstd::laws_cmp::obeys_cmp::<NodeKey>(), vstd::laws_cmp::obeys_cmp::<EdgeKey>(), vstd::laws_cmp::obeys_cmp::<AttachmentKey>(), vstd::laws_cmp::obeys_cmp::<WarpScopedPortKey>(),
        ensures r == conflict_with_active(pr.footprint@, active@),
{
        // Footprint sets are now warp-scoped: they contain full NodeKey/EdgeKey/WarpScopedPortKey
        // values, so we can directly check for conflicts without constructing keys.

        // Node writes conflict with prior writes OR reads
        for key in it: pr.footprint.n_write.0.iter()
            invariant
                vstd::laws_cmp::obeys_cmp::<NodeKey>(), vstd::laws_cmp::obeys_cmp::<EdgeKey>(), vstd::laws_cmp::obeys_cmp::<AttachmentKey>(), vstd::laws_cmp::obeys_cmp::<WarpScopedPortKey>(),
                
                it.snapshot@.remaining().unref().to_set() == pr.footprint@.nw,
                it.snapshot@.remaining() == it.history@ + it.iter.remaining(),
                forall|i: int| 0 <= i < it.history@.len() ==> !(active@.nw + active@.nr).contains(*#[trigger] it.history@[i]),
        {
            proof { assert(pr.footprint@.nw.contains(*key)); }
            if active.nodes_written.contains(*key) || active.nodes_read.contains(*key) {
                return true;
            }
        }
        proof { assert forall|k| pr.footprint@.nw.contains(k) implies !(active@.nw + active@.nr).contains(k) by { } assert(pr.footprint@.nw.disjoint((active@.nw + active@.nr))); }

        // Node reads conflict with prior writes (but NOT prior reads)
        for key in it: pr.footprint.n_read.0.iter()
            invariant
                vstd::laws_cmp::obeys_cmp::<NodeKey>(), vstd::laws_cmp::obeys_cmp::<EdgeKey>(), vstd::laws_cmp::obeys_cmp::<AttachmentKey>(), vstd::laws_cmp::obeys_cmp::<WarpScopedPortKey>(),
                pr.footprint@.nw.disjoint((active@.nw + active@.nr)),
                it.snapshot@.remaining().unref().to_set() == pr.footprint@.nr,
                it.snapshot@.remaining() == it.history@ + it.iter.remaining(),
                forall|i: int| 0 <= i < it.history@.len() ==> !active@.nw.contains(*#[trigger] it.history@[i]),
        {
            proof { assert(pr.footprint@.nr.contains(*key)); }
            if active.nodes_written.contains(*key) {
                return true;
            }
        }
        proof { assert forall|k| pr.footprint@.nr.contains(k) implies !active@.nw.contains(k) by { } assert(pr.footprint@.nr.disjoint(active@.nw)); }

        // Edge writes conflict with prior writes OR reads
        for key in it: pr.footprint.e_write.0.iter()
            invariant
                vstd::laws_cmp::obeys_cmp::<NodeKey>(), vstd::laws_cmp::obeys_cmp::<EdgeKey>(), vstd::laws_cmp::obeys_cmp::<AttachmentKey>(), vstd::laws_cmp::obeys_cmp::<WarpScopedPortKey>(),
                pr.footprint@.nw.disjoint((active@.nw + active@.nr)), pr.footprint@.nr.disjoint(active@.nw),
                it.snapshot@.remaining().unref().to_set() == pr.footprint@.ew,
                it.snapshot@.remaining() == it.history@ + it.iter.remaining(),
                forall|i: int| 0 <= i < it.history@.len() ==> !(active@.ew + active@.er).contains(*#[trigger] it.history@[i]),
        {
            proof { assert(pr.footprint@.ew.contains(*key)); }
            if active.edges_written.contains(*key) || active.edges_read.contains(*key) {
                return true;
            }
        }
        proof { assert forall|k| pr.footprint@.ew.contains(k) implies !(active@.ew + active@.er).contains(k) by { } assert(pr.footprint@.ew.disjoint((active@.ew + active@.er))); }

        // Edge reads conflict with prior writes (but NOT prior reads)
        for key in it: pr.footprint.e_read.0.iter()
            invariant
                vstd::laws_cmp::obeys_cmp::<NodeKey>(), vstd::laws_cmp::obeys_cmp::<EdgeKey>(), vstd::laws_cmp::obeys_cmp::<AttachmentKey>(), vstd::laws_cmp::obeys_cmp::<WarpScopedPortKey>(),
                pr.footprint@.nw.disjoint((active@.nw + active@.nr)), pr.footprint@.nr.disjoint(active@.nw), pr.footprint@.ew.disjoint((active@.ew + active@.er)),
                it.snapshot@.remaining().unref().to_set() == pr.footprint@.er,
                it.snapshot@.remaining() == it.history@ + it.iter.remaining(),
                forall|i: int| 0 <= i < it.history@.len() ==> !active@.ew.contains(*#[trigger] it.history@[i]),
        {
            proof { assert(pr.footprint@.er.contains(*key)); }
            if active.edges_written.contains(*key) {
                return true;
            }
        }
        proof { assert forall|k| pr.footprint@.er.contains(k) implies !active@.ew.contains(k) by { } assert(pr.footprint@.er.disjoint(active@.ew)); }

        // Attachment writes conflict with prior writes OR reads.
        for key in it: pr.footprint.a_write.0.iter()
            invariant
                vstd::laws_cmp::obeys_cmp::<NodeKey>(), vstd::laws_cmp::obeys_cmp::<EdgeKey>(), vstd::laws_cmp::obeys_cmp::<AttachmentKey>(), vstd::laws_cmp::obeys_cmp::<WarpScopedPortKey>(),
                pr.footprint@.nw.disjoint((active@.nw + active@.nr)), pr.footprint@.nr.disjoint(active@.nw), pr.footprint@.ew.disjoint((active@.ew + active@.er)), pr.footprint@.er.disjoint(active@.ew),
                it.snapshot@.remaining().unref().to_set() == pr.footprint@.aw,
                it.snapshot@.remaining() == it.history@ + it.iter.remaining(),
                forall|i: int| 0 <= i < it.history@.len() ==> !(active@.aw + active@.ar).contains(*#[trigger] it.history@[i]),
        {
            proof { assert(pr.footprint@.aw.contains(*key)); }
            if active.attachments_written.contains(*key) || active.attachments_read.contains(*key) {
                return true;
            }
        }
        proof { assert forall|k| pr.footprint@.aw.contains(k) implies !(active@.aw + active@.ar).contains(k) by { } assert(pr.footprint@.aw.disjoint((active@.aw + active@.ar))); }

        // Attachment reads conflict with prior writes (but NOT prior reads).
        for key in it: pr.footprint.a_read.0.iter()
            invariant
                vstd::laws_cmp::obeys_cmp::<NodeKey>(), vstd::laws_cmp::obeys_cmp::<EdgeKey>(), vstd::laws_cmp::obeys_cmp::<AttachmentKey>(), vstd::laws_cmp::obeys_cmp::<WarpScopedPortKey>(),
                pr.footprint@.nw.disjoint((active@.nw + active@.nr)), pr.footprint@.nr.disjoint(active@.nw), pr.footprint@.ew.disjoint((active@.ew + active@.er)), pr.footprint@.er.disjoint(active@.ew), pr.footprint@.aw.disjoint((active@.aw + active@.ar)),
                it.snapshot@.remaining().unref().to_set() == pr.footprint@.ar,
                it.snapshot@.remaining() == it.history@ + it.iter.remaining(),
                forall|i: int| 0 <= i < it.history@.len() ==> !active@.aw.contains(*#[trigger] it.history@[i]),
        {
            proof { assert(pr.footprint@.ar.contains(*key)); }
            if active.attachments_written.contains(*key) {
                return true;
            }
        }
        proof { assert forall|k| pr.footprint@.ar.contains(k) implies !active@.aw.contains(k) by { } assert(pr.footprint@.ar.disjoint(active@.aw)); }

        // Boundary ports: any intersection conflicts (b_in and b_out combined)
        // Port keys are now warp-scoped: (WarpId, PortKey)
        for port_key in it: pr.footprint.b_in.0.iter()
            invariant
                vstd::laws_cmp::obeys_cmp::<NodeKey>(), vstd::laws_cmp::obeys_cmp::<EdgeKey>(), vstd::laws_cmp::obeys_cmp::<AttachmentKey>(), vstd::laws_cmp::obeys_cmp::<WarpScopedPortKey>(),
                pr.footprint@.nw.disjoint((active@.nw + active@.nr)), pr.footprint@.nr.disjoint(active@.nw), pr.footprint@.ew.disjoint((active@.ew + active@.er)), pr.footprint@.er.disjoint(active@.ew), pr.footprint@.aw.disjoint((active@.aw + active@.ar)), pr.footprint@.ar.disjoint(active@.aw),
                it.snapshot@.remaining().unref().to_set() == pr.footprint@.bi,
                it.snapshot@.remaining() == it.history@ + it.iter.remaining(),
                forall|i: int| 0 <= i < it.history@.len() ==> !active@.ports.contains(*#[trigger] it.history@[i]),
        {
            proof { assert(pr.footprint@.bi.contains(*port_key)); }
            if active.ports.contains(*port_key) {
                return true;
            }
        }
        proof { assert forall|k| pr.footprint@.bi.contains(k) implies !active@.ports.contains(k) by { } assert(pr.footprint@.bi.disjoint(active@.ports)); }
        for port_key in it: pr.footprint.b_out.0.iter()
            invariant
                vstd::laws_cmp::obeys_cmp::<NodeKey>(), vstd::laws_cmp::obeys_cmp::<EdgeKey>(), vstd::laws_cmp::obeys_cmp::<AttachmentKey>(), vstd::laws_cmp::obeys_cmp::<WarpScopedPortKey>(),
                pr.footprint@.nw.disjoint((active@.nw + active@.nr)), pr.footprint@.nr.disjoint(active@.nw), pr.footprint@.ew.disjoint((active@.ew + active@.er)), pr.footprint@.er.disjoint(active@.ew), pr.footprint@.aw.disjoint((active@.aw + active@.ar)), pr.footprint@.ar.disjoint(active@.aw), pr.footprint@.bi.disjoint(active@.ports),
                it.snapshot@.remaining().unref().to_set() == pr.footprint@.bo,
                it.snapshot@.remaining() == it.history@ + it.iter.remaining(),
                forall|i: int| 0 <= i < it.history@.len() ==> !active@.ports.contains(*#[trigger] it.history@[i]),
        {
            proof { assert(pr.footprint@.bo.contains(*port_key)); }
            if active.ports.contains(*port_key) {
                return true;
            }
        }
        proof { assert forall|k| pr.footprint@.bo.contains(k) implies !active@.ports.contains(k) by { } assert(pr.footprint@.bo.disjoint(active@.ports)); }

        false
    }
    #[inline]
    fn mark_all(active: &mut ActiveFootprints, pr: &PendingRewrite)
        requires vstd::laws_cmp::obeys_cmp::<NodeKey>(), vstd::laws_cmp::obeys_cmp::<EdgeKey>(), vstd::laws_cmp::obeys_cmp::<AttachmentKey>(), vstd::laws_cmp::obeys_cmp::<WarpScopedPortKey>(),
        ensures final(active)@ == add_fp(old(active)@, pr.footprint@),
{
        let ghost a0 = active@;
        // Footprint sets are now warp-scoped: they contain full keys, so we can
        // directly mark them without constructing keys on the fly.

        for key in it: pr.footprint.n_write.0.iter()
            invariant
                vstd::laws_cmp::obeys_cmp::<NodeKey>(), vstd::laws_cmp::obeys_cmp::<EdgeKey>(), vstd::laws_cmp::obeys_cmp::<AttachmentKey>(), vstd::laws_cmp::obeys_cmp::<WarpScopedPortKey>(),
                it.snapshot@.remaining().unref().to_set() == pr.footprint@.nw,
                it.snapshot@.remaining() == it.history@ + it.iter.remaining(),
                active@.nw == a0.nw + it.history@.unref().to_set(), active@.nr == a0.nr, active@.ew == a0.ew, active@.er == a0.er, active@.aw == a0.aw, active@.ar == a0.ar, active@.ports == a0.ports,
        {
            proof { lemma_push_to_set(it.history@, key); }
            active.nodes_written.mark(*key);
        }
        for key in it: pr.footprint.n_read.0.iter()
            invariant
                vstd::laws_cmp::obeys_cmp::<NodeKey>(), vstd::laws_cmp::obeys_cmp::<EdgeKey>(), vstd::laws_cmp::obeys_cmp::<AttachmentKey>(), vstd::laws_cmp::obeys_cmp::<WarpScopedPortKey>(),
                it.snapshot@.remaining().unref().to_set() == pr.footprint@.nr,
                it.snapshot@.remaining() == it.history@ + it.iter.remaining(),
                active@.nw == a0.nw + pr.footprint@.nw, active@.nr == a0.nr + it.history@.unref().to_set(), active@.ew == a0.ew, active@.er == a0.er, active@.aw == a0.aw, active@.ar == a0.ar, active@.ports == a0.ports,
        {
            proof { lemma_push_to_set(it.history@, key); }
            active.nodes_read.mark(*key);
        }
        for key in it: pr.footprint.e_write.0.iter()
            invariant
                vstd::laws_cmp::obeys_cmp::<NodeKey>(), vstd::laws_cmp::obeys_cmp::<EdgeKey>(), vstd::laws_cmp::obeys_cmp::<AttachmentKey>(), vstd::laws_cmp::obeys_cmp::<WarpScopedPortKey>(),
                it.snapshot@.remaining().unref().to_set() == pr.footprint@.ew,
                it.snapshot@.remaining() == it.history@ + it.iter.remaining(),
                active@.nw == a0.nw + pr.footprint@.nw, active@.nr == a0.nr + pr.footprint@.nr, active@.ew == a0.ew + it.history@.unref().to_set(), active@.er == a0.er, active@.aw == a0.aw, active@.ar == a0.ar, active@.ports == a0.ports,
        {
            proof { lemma_push_to_set(it.history@, key); }
            active.edges_written.mark(*key);
        }
        for key in it: pr.footprint.e_read.0.iter()
            invariant
                vstd::laws_cmp::obeys_cmp::<NodeKey>(), vstd::laws_cmp::obeys_cmp::<EdgeKey>(), vstd::laws_cmp::obeys_cmp::<AttachmentKey>(), vstd::laws_cmp::obeys_cmp::<WarpScopedPortKey>(),
                it.snapshot@.remaining().unref().to_set() == pr.footprint@.er,
                it.snapshot@.remaining() == it.history@ + it.iter.remaining(),
                active@.nw == a0.nw + pr.footprint@.nw, active@.nr == a0.nr + pr.footprint@.nr, active@.ew == a0.ew + pr.footprint@.ew, active@.er == a0.er + it.history@.unref().to_set(), active@.aw == a0.aw, active@.ar == a0.ar, active@.ports == a0.ports,
        {
            proof { lemma_push_to_set(it.history@, key); }
            active.edges_read.mark(*key);
        }
        for key in it: pr.footprint.a_write.0.iter()
            invariant
                vstd::laws_cmp::obeys_cmp::<NodeKey>(), vstd::laws_cmp::obeys_cmp::<EdgeKey>(), vstd::laws_cmp::obeys_cmp::<AttachmentKey>(), vstd::laws_cmp::obeys_cmp::<WarpScopedPortKey>(),
                it.snapshot@.remaining().unref().to_set() == pr.footprint@.aw,
                it.snapshot@.remaining() == it.history@ + it.iter.remaining(),
                active@.nw == a0.nw + pr.footprint@.nw, active@.nr == a0.nr + pr.footprint@.nr, active@.ew == a0.ew + pr.footprint@.ew, active@.er == a0.er + pr.footprint@.er, active@.aw == a0.aw + it.history@.unref().to_set(), active@.ar == a0.ar, active@.ports == a0.ports,
        {
            proof { lemma_push_to_set(it.history@, key); }
            active.attachments_written.mark(*key);
        }
        for key in it: pr.footprint.a_read.0.iter()
            invariant
                vstd::laws_cmp::obeys_cmp::<NodeKey>(), vstd::laws_cmp::obeys_cmp::<EdgeKey>(), vstd::laws_cmp::obeys_cmp::<AttachmentKey>(), vstd::laws_cmp::obeys_cmp::<WarpScopedPortKey>(),
                it.snapshot@.remaining().unref().to_set() == pr.footprint@.ar,
                it.snapshot@.remaining() == it.history@ + it.iter.remaining(),
                active@.nw == a0.nw + pr.footprint@.nw, active@.nr == a0.nr + pr.footprint@.nr, active@.ew == a0.ew + pr.footprint@.ew, active@.er == a0.er + pr.footprint@.er, active@.aw == a0.aw + pr.footprint@.aw, active@.ar == a0.ar + it.history@.unref().to_set(), active@.ports == a0.ports,
        {
            proof { lemma_push_to_set(it.history@, key); }
            active.attachments_read.mark(*key);
        }
        for port_key in it: pr.footprint.b_in.0.iter()
            invariant
                vstd::laws_cmp::obeys_cmp::<NodeKey>(), vstd::laws_cmp::obeys_cmp::<EdgeKey>(), vstd::laws_cmp::obeys_cmp::<AttachmentKey>(), vstd::laws_cmp::obeys_cmp::<WarpScopedPortKey>(),
                it.snapshot@.remaining().unref().to_set() == pr.footprint@.bi,
                it.snapshot@.remaining() == it.history@ + it.iter.remaining(),
                active@.nw == a0.nw + pr.footprint@.nw, active@.nr == a0.nr + pr.footprint@.nr, active@.ew == a0.ew + pr.footprint@.ew, active@.er == a0.er + pr.footprint@.er, active@.aw == a0.aw + pr.footprint@.aw, active@.ar == a0.ar + pr.footprint@.ar, active@.ports == a0.ports + it.history@.unref().to_set(),
        {
            proof { lemma_push_to_set(it.history@, port_key); }
            active.ports.mark(*port_key);
        }
        for port_key in it: pr.footprint.b_out.0.iter()
            invariant
                vstd::laws_cmp::obeys_cmp::<NodeKey>(), vstd::laws_cmp::obeys_cmp::<EdgeKey>(), vstd::laws_cmp::obeys_cmp::<AttachmentKey>(), vstd::laws_cmp::obeys_cmp::<WarpScopedPortKey>(),
                it.snapshot@.remaining().unref().to_set() == pr.footprint@.bo,
                it.snapshot@.remaining() == it.history@ + it.iter.remaining(),
                active@.nw == a0.nw + pr.footprint@.nw, active@.nr == a0.nr + pr.footprint@.nr, active@.ew == a0.ew + pr.footprint@.ew, active@.er == a0.er + pr.footprint@.er, active@.aw == a0.aw + pr.footprint@.aw, active@.ar == a0.ar + pr.footprint@.ar, active@.ports == a0.ports + pr.footprint@.bi + it.history@.unref().to_set(),
        {
            proof { lemma_push_to_set(it.history@, port_key); }
            active.ports.mark(*port_key);
        }
    }
}
} fn main() {}
