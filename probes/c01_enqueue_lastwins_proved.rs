use vstd::prelude::*;
use std::collections::BTreeMap;
verus! {
broadcast use vstd::std_specs::btree::group_btree_axioms;

#[derive(Clone, Copy, Debug, Default, PartialEq, Eq)]
struct RewriteThin {
    scope_be32: [u8; 32], // full 256-bit scope, byte-lexicographic order
    rule_id: u32,         // compact, unique, stable per rule
    nonce: u32,           // insertion-order tie-break
    handle: usize,        // index into fat payload vec (usize to avoid truncation casts)
}
struct PendingTx<P> {
    next_nonce: u32,
    /// Last-wins dedupe on (`scope_hash`, `compact_rule`).
    index: BTreeMap<([u8; 32], u32), usize>,
    /// Thin keys + handles (sorted during drain).
    thin: Vec<RewriteThin>,
    /// Fat payloads (indexed by handle).
    fat: Vec<Option<P>>,
}
type Key = ([u8; 32], u32);

impl<P> PendingTx<P> {
    /// Representation invariant: `index` maps each key to the position of its unique thin record, whose handle
    /// points at a live payload; handles are distinct.
    pub closed spec fn wf(&self) -> bool {
        &&& self.thin@.len() == self.fat@.len()
        &&& forall|k: Key| #[trigger] self.index@.contains_key(k) ==> {
                let i = self.index@[k];
                &&& 0 <= i < self.thin@.len()
                &&& self.thin@[i as int].scope_be32 == k.0 && self.thin@[i as int].rule_id == k.1 }
        &&& forall|i: int| 0 <= i < self.thin@.len() ==> {
                let t = #[trigger] self.thin@[i];
                &&& self.index@.contains_key((t.scope_be32, t.rule_id)) && self.index@[(t.scope_be32, t.rule_id)] == i
                &&& t.handle == i
                &&& self.fat@[i] is Some }
    }
    /// Abstract view: the last-wins map key -> payload.
    pub closed spec fn view(&self) -> Map<Key, P> {
        self.index@.map_values(|i: usize| self.fat@[self.thin@[i as int].handle as int]->0)
    }

    /// Enqueues a rewrite with last-wins semantics.
    #[inline]
    fn enqueue(&mut self, scope_be32: [u8; 32], rule_id: u32, payload: P)
        requires old(self).wf(), vstd::laws_cmp::obeys_cmp::<Key>(),
        ensures final(self).wf(), final(self)@ == old(self)@.insert((scope_be32, rule_id), payload),
    {
        let key = (scope_be32, rule_id);
        if let Some(i_ref) = self.index.get(&key) { let i = *i_ref;
            // Last-wins: overwrite payload and refresh nonce for determinism
            let h = self.thin[i].handle;
            self.fat[h] = Some(payload);
            let n = self.next_nonce;
            self.next_nonce = n.wrapping_add(1);
            self.thin[i].nonce = n;
        } else {
            let handle = self.fat.len();
            self.fat.push(Some(payload));
            let n = self.next_nonce;
            self.next_nonce = n.wrapping_add(1);
            self.thin.push(RewriteThin {
                scope_be32,
                rule_id,
                nonce: n,
                handle,
            });
            self.index.insert(key, self.thin.len() - 1);
        }
        proof { assert(final(self)@ =~= old(self)@.insert((scope_be32, rule_id), payload)); }
    }
}
} fn main() {}
