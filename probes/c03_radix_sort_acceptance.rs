use vstd::prelude::*;
use std::cmp::Ordering;
verus! {
#[verifier::external_body] pub fn le_u32(x: u32) -> (r: [u8; 4]) { le_u32(x) }
#[verifier::external_body] pub fn u16_from_le(x: [u8;2]) -> (r: u16) { u16_from_le(x) }
#[verifier::external_body] pub fn u16_from_be(x: [u8;2]) -> (r: u16) { u16_from_be(x) }
pub assume_specification<F: FnOnce() -> Ordering + core::marker::Destruct> [Ordering::then_with] (a: Ordering, f: F) -> Ordering;
pub assume_specification<T: Clone> [<[T]>::fill] (s: &mut [T], v: T);

#[derive(Clone, Copy, Debug, Default, PartialEq, Eq)]
struct RewriteThin {
    scope_be32: [u8; 32], // full 256-bit scope, byte-lexicographic order
    rule_id: u32,         // compact, unique, stable per rule
    nonce: u32,           // insertion-order tie-break
    handle: usize,        // index into fat payload vec (usize to avoid truncation casts)
}

struct PendingTx {
    next_nonce: u32,
    thin: Vec<RewriteThin>,
    scratch: Vec<RewriteThin>,
    counts16: Vec<u32>,
}

#[inline]
fn u16_from_u32_le(x: u32, idx: usize) -> u16 {
    debug_assert!(idx < 2);
    let b = le_u32(x);
    u16_from_le([b[2 * idx], b[2 * idx + 1]])
}

#[inline]
fn u16_be_from_pair32(bytes: &[u8; 32], pair_idx_be: usize) -> u16 {
    debug_assert!(pair_idx_be < 16);
    let off = 2 * pair_idx_be;
    u16_from_be([bytes[off], bytes[off + 1]])
}

#[inline]
fn cmp_thin(a: &RewriteThin, b: &RewriteThin) -> Ordering {
    match a.scope_be32.cmp(&b.scope_be32) {
        Ordering::Equal => a
            .rule_id
            .cmp(&b.rule_id)
            .then_with(|| a.nonce.cmp(&b.nonce)),
        o => o,
    }
}

#[inline]
fn bucket16(r: &RewriteThin, pass: usize) -> u16 {
    match pass {
        0 => u16_from_u32_le(r.nonce, 0),
        1 => u16_from_u32_le(r.nonce, 1),
        2 => u16_from_u32_le(r.rule_id, 0),
        3 => u16_from_u32_le(r.rule_id, 1),
        4..=19 => {
            let pair_idx_be = 19 - pass; // pass 4→15 (LSB), pass 19→0 (MSB)
            u16_be_from_pair32(&r.scope_be32, pair_idx_be)
        }
        _ => unreachable!("invalid radix pass"),
    }
}

impl PendingTx {
    fn radix_sort(&mut self) {
        let n = self.thin.len();
        if n <= 1 {
            return;
        }
        self.scratch.resize(n, RewriteThin::default());

        // Lazy allocation of 16-bit histogram (65536 buckets).
        if self.counts16.is_empty() {
            self.counts16 = vec![0u32; 1 << 16];
        }

        let mut flip = false;
        for pass in 0..20 {
            let (src, dst) = if flip {
                (&self.scratch[..], &mut self.thin[..])
            } else {
                (&self.thin[..], &mut self.scratch[..])
            };

            let counts = &mut self.counts16;
            counts.fill(0);

            // Count
            for r in src {
                let b = bucket16(r, pass) as usize;
                counts[b] = counts[b].wrapping_add(1);
            }

            // Prefix sums
            let mut sum: u32 = 0;
            for c in counts.iter_mut() {
                let t = *c;
                *c = sum;
                sum = sum.wrapping_add(t);
            }

            // Stable scatter
            for r in src {
                let b = bucket16(r, pass) as usize;
                let idx_u32 = counts[b];
                counts[b] = idx_u32.wrapping_add(1);
                let idx = idx_u32 as usize; // widening u32→usize (safe on 32/64-bit)
                dst[idx] = *r;
            }

            flip = !flip;
        }

        // Ensure final ordering resides in `thin`
        if flip {
            self.thin.copy_from_slice(&self.scratch);
        }
    }
}

} // verus!
fn main() {}
