use vstd::prelude::*;
use std::collections::BTreeMap;
verus! {
pub type Hash = [u8; 32];
#[derive(Clone, Debug, PartialEq, Eq)] pub struct Bytes { pub v: Vec<u8> }
/// Strongly typed identifier for a node in the skeleton graph.
///
/// `NodeId` is an opaque 32-byte identifier (`Hash`). Many nodes in Echo use
/// stable, label-derived ids via [`make_node_id`] (`blake3("node:" || label)`),
/// but this is a convention, not a global constraint.
///
/// Other subsystems may construct content-addressed `NodeId`s derived from
/// different domain-separated hashes (for example, inbox/ledger event nodes
/// keyed by `intent_id = blake3("intent:" || intent_bytes)`).
///
/// Tooling must not assume that every `NodeId` corresponds to a human-readable
/// label, or that ids are reversible back into strings.
#[repr(transparent)]
#[derive(Clone, Copy, PartialEq, Eq, PartialOrd, Ord, Hash, Debug)]
pub struct NodeId(pub Hash);
/// Strongly typed identifier for the logical kind of a node or component.
///
/// `TypeId` values are produced by [`make_type_id`] which hashes a label; using
/// a dedicated wrapper prevents accidental mixing of node and type identifiers.
#[repr(transparent)]
#[derive(Clone, Copy, PartialEq, Eq, PartialOrd, Ord, Hash, Debug)]
pub struct TypeId(pub Hash);
/// Identifier for a directed edge within the graph.
#[repr(transparent)]
#[derive(Clone, Copy, PartialEq, Eq, PartialOrd, Ord, Hash, Debug)]
pub struct EdgeId(pub Hash);
/// Strongly typed identifier for a WARP instance.
///
/// A `WarpId` namespaces node/edge ids for Stage B1 "flattened indirection"
/// descended attachments: nodes and edges live in instance-scoped graphs
/// addressed by `(warp_id, local_id)`.
#[repr(transparent)]
#[derive(Clone, Copy, PartialEq, Eq, PartialOrd, Ord, Hash, Debug)]
pub struct WarpId(pub Hash);
/// Typed, opaque payload attached to a node or edge.
///
/// This is the depth-0 “atom” payload for the attachment plane:
/// `AtomPayload = Atom(TypeId, Bytes)`.
///
/// Laws / invariants:
/// - `type_id` is part of the deterministic boundary and must participate in
///   canonical encodings and digests.
/// - `bytes` are opaque to the core store and must not be treated as hidden
///   skeleton structure. Any dependency that matters for matching, causality,
///   slicing, or rewrite applicability must be expressed as explicit skeleton
///   nodes/edges/ports.
#[derive(Clone, Debug, PartialEq, Eq)]
pub struct AtomPayload {
    /// Type identifier describing how to interpret `bytes`.
    pub type_id: TypeId,
    /// Opaque payload bytes.
    pub bytes: Bytes,
}
/// Attachment value stored in the attachment plane.
///
/// Depth-0 attachments are always [`AttachmentValue::Atom`].
/// Stage B1 introduces [`AttachmentValue::Descend`] to model recursive WARPs as
/// flattened indirection.
#[derive(Clone, Debug, PartialEq, Eq)]
pub enum AttachmentValue {
    /// Depth-0 atom payload.
    Atom(AtomPayload),
    /// Flattened indirection to another WARP instance.
    Descend(WarpId),
}
/// Materialised record for a single node stored in the graph.
///
/// Node records are **skeleton-plane only**: they describe structural identity
/// (currently: the node type) but do not carry attachment payloads.
///
/// Attachment-plane payloads are stored separately (see [`crate::AttachmentValue`])
/// and are addressed via [`crate::AttachmentKey`] / [`crate::SlotId`].
///
/// Invariants
/// - `ty` must be a valid type identifier in the current schema.
/// - The node identifier is not embedded here; the store supplies it externally.
#[derive(Clone, Debug, PartialEq, Eq)]
pub struct NodeRecord {
    /// Type identifier describing the node.
    pub ty: TypeId,
}
/// Materialised record for a single edge stored in the graph.
///
/// Edge records are **skeleton-plane only**: they describe the structural link
/// between two nodes (from/to) and the link's type, but do not carry
/// attachment payloads.
///
/// Attachment-plane payloads for edges are stored separately (see
/// [`crate::AttachmentValue`]) and are addressed via [`crate::AttachmentKey`]
/// (using the edge's `id`).
///
/// Invariants
/// - `id` is stable across runs because it is derived via [`crate::make_edge_id`].
/// - `from` and `to` reference existing nodes in the same store.
/// - `ty` must be a valid edge type in the current schema.
#[derive(Clone, Debug, PartialEq, Eq)]
pub struct EdgeRecord {
    /// Stable identifier for the edge (see [`crate::make_edge_id`]).
    pub id: EdgeId,
    /// Source node identifier.
    pub from: NodeId,
    /// Destination node identifier.
    pub to: NodeId,
    /// Type identifier describing the edge.
    pub ty: TypeId,
}
/// Error returned by [`GraphStore::delete_node_isolated`].
///
/// `DeleteNode` must not cascade. If the node has incident edges, the caller
/// must emit explicit `DeleteEdge` ops first.
#[derive(Debug, Clone, Copy, PartialEq, Eq)]
pub enum DeleteNodeError {
    /// The node does not exist in the store.
    NodeNotFound,
    /// The node has outgoing edges; delete them first.
    HasOutgoingEdges,
    /// The node has incoming edges; delete them first.
    HasIncomingEdges,
}
/// In-memory graph storage for the spike.
///
/// The production engine will eventually swap in a content-addressed store,
/// but this structure keeps the motion rewrite spike self-contained.
#[derive(Debug, Clone)]
pub struct GraphStore {
    /// Warp instance identifier for this store (Stage B1).
    pub(crate) warp_id: WarpId,
    /// Mapping from node identifiers to their materialised records.
    pub(crate) nodes: BTreeMap<NodeId, NodeRecord>,
    /// Mapping from source node to outbound edge records.
    pub(crate) edges_from: BTreeMap<NodeId, Vec<EdgeRecord>>,
    /// Reverse adjacency: mapping from destination node to inbound edge ids.
    ///
    /// This allows `delete_node_cascade` to remove inbound edges without scanning
    /// every `edges_from` bucket (removal becomes `O(inbound_edges)`).
    pub(crate) edges_to: BTreeMap<NodeId, Vec<EdgeId>>,
    /// Attachment plane payloads for nodes (Paper I `α` plane).
    ///
    /// Entries are present only when the attachment is `Some(...)`.
    pub(crate) node_attachments: BTreeMap<NodeId, AttachmentValue>,
    /// Attachment plane payloads for edges (Paper I `β` plane).
    ///
    /// Entries are present only when the attachment is `Some(...)`.
    pub(crate) edge_attachments: BTreeMap<EdgeId, AttachmentValue>,
    /// Reverse index of `EdgeId -> from NodeId`.
    ///
    /// This enables efficient edge migration/removal by id (used by tick patch replay),
    /// avoiding `O(total_edges)` scans across all buckets.
    pub(crate) edge_index: BTreeMap<EdgeId, NodeId>,
    /// Reverse index of `EdgeId -> to NodeId`.
    ///
    /// This enables efficient maintenance of [`GraphStore::edges_to`] during
    /// edge migration and deletion.
    pub(crate) edge_to_index: BTreeMap<EdgeId, NodeId>,
}
impl GraphStore {
    /// Sets the node's attachment value.
    ///
    /// Passing `None` clears any existing attachment.
    pub fn set_node_attachment(&mut self, id: NodeId, value: Option<AttachmentValue>) {
        match value {
            None => {
                self.node_attachments.remove(&id);
            }
            Some(v) => {
                self.node_attachments.insert(id, v);
            }
        }
    }
    /// Sets the edge's attachment value.
    ///
    /// Passing `None` clears any existing attachment.
    pub fn set_edge_attachment(&mut self, id: EdgeId, value: Option<AttachmentValue>) {
        match value {
            None => {
                self.edge_attachments.remove(&id);
            }
            Some(v) => {
                self.edge_attachments.insert(id, v);
            }
        }
    }
    /// Inserts or replaces a node in the store.
    pub fn insert_node(&mut self, id: NodeId, record: NodeRecord) {
        self.nodes.insert(id, record);
    }
    /// Inserts or replaces an edge record and maintains the reverse `EdgeId -> from` index.
    ///
    /// If an edge with the same id already exists (possibly in a different bucket),
    /// this removes the old record first so that `EdgeId` remains unique across the store.
    pub(crate) fn upsert_edge_record(&mut self, from: NodeId, mut edge: EdgeRecord) {
        if edge.from != from {
            debug_assert_eq!(
                edge.from, from,
                "edge.from must match the bucket key passed to insert_edge"
            );
            // Preserve store invariants even if the caller passed an inconsistent record.
            edge.from = from;
        }
        let edge_id = edge.id;
        let to = edge.to;
        let prev_from = self.edge_index.insert(edge_id, from);
        let prev_to = self.edge_to_index.insert(edge_id, to);
        if let Some(prev_from) = prev_from {
            let bucket_is_empty = self.edges_from.get_mut(&prev_from).map_or_else(
                || {
                    debug_assert!(
                        false,
                        "edge index referenced a missing bucket for edge id: {edge_id:?}"
                    );
                    false
                },
                |edges| {
                    let before = edges.len();
                    edges.retain(|e| e.id != edge_id);
                    if edges.len() == before {
                        debug_assert!(
                            false,
                            "edge index referenced an edge missing from its bucket: {edge_id:?}"
                        );
                    }
                    edges.is_empty()
                },
            );
            if bucket_is_empty {
                self.edges_from.remove(&prev_from);
            }
        }
        if let Some(prev_to) = prev_to {
            let bucket_is_empty = self.edges_to.get_mut(&prev_to).map_or_else(
                || {
                    debug_assert!(
                        false,
                        "edge-to index referenced a missing bucket for edge id: {edge_id:?}"
                    );
                    false
                },
                |edges| {
                    let before = edges.len();
                    edges.retain(|id| *id != edge_id);
                    if edges.len() == before {
                        debug_assert!(
                            false,
                            "edge-to index referenced an edge missing from its bucket: {edge_id:?}"
                        );
                    }
                    edges.is_empty()
                },
            );
            if bucket_is_empty {
                self.edges_to.remove(&prev_to);
            }
        }
        self.edges_from.entry(from).or_default().push(edge);
        self.edges_to.entry(to).or_default().push(edge_id);
    }
    /// Deletes an isolated node and its alpha attachment.
    ///
    /// Unlike `delete_node_cascade`, this method **rejects** deletion if the node
    /// has any incident edges (outgoing or incoming). This ensures that `WarpOp`s
    /// accurately describe the mutation—no hidden side effects on edges.
    ///
    /// # Errors
    ///
    /// - [`DeleteNodeError::NodeNotFound`] if the node does not exist
    /// - [`DeleteNodeError::HasOutgoingEdges`] if the node has outgoing edges
    /// - [`DeleteNodeError::HasIncomingEdges`] if the node has incoming edges
    ///
    /// # Allowed Mini-Cascade
    ///
    /// The node's alpha attachment is deleted as part of this operation. This is
    /// enforceable because the attachment key is derivable from the node key.
    /// Footprint enforcement requires `a_write` to include the alpha attachment.
    pub fn delete_node_isolated(&mut self, node: NodeId) -> Result<(), DeleteNodeError> {
        // Check node exists
        if !self.nodes.contains_key(&node) {
            return Err(DeleteNodeError::NodeNotFound);
        }

        // Check for outgoing edges
        if self.edges_from.get(&node).is_some_and(|e| !e.is_empty()) {
            return Err(DeleteNodeError::HasOutgoingEdges);
        }

        // Check for incoming edges
        if self.edges_to.get(&node).is_some_and(|e| !e.is_empty()) {
            return Err(DeleteNodeError::HasIncomingEdges);
        }

        // Safe to delete: remove node and its attachment
        self.nodes.remove(&node);
        self.node_attachments.remove(&node);

        // Clean up empty edge buckets (defensive; should already be empty)
        self.edges_from.remove(&node);
        self.edges_to.remove(&node);

        Ok(())
    }
    /// Deletes an edge from the specified bucket if it exists and matches the reverse index.
    ///
    /// Returns `true` if an edge was removed; returns `false` if the edge did not exist or
    /// if the reverse index indicates the edge belongs to a different bucket.
    pub fn delete_edge_exact(&mut self, from: NodeId, edge_id: EdgeId) -> bool {
        match self.edge_index.get(&edge_id) {
            Some(current_from) if *current_from == from => {}
            _ => return false,
        }
        let Some(to) = self.edge_to_index.get(&edge_id).copied() else {
            debug_assert!(
                false,
                "edge-to index missing edge id referenced by edge_index: {edge_id:?}"
            );
            return false;
        };
        let Some(edges) = self.edges_from.get_mut(&from) else {
            debug_assert!(
                false,
                "edge index referenced a missing bucket for edge id: {edge_id:?}"
            );
            return false;
        };
        let before = edges.len();
        edges.retain(|e| e.id != edge_id);
        if edges.len() == before {
            debug_assert!(
                false,
                "edge index referenced an edge missing from its bucket: {edge_id:?}"
            );
            return false;
        }
        let bucket_is_empty = edges.is_empty();
        self.edge_index.remove(&edge_id);
        self.edge_to_index.remove(&edge_id);
        if bucket_is_empty {
            self.edges_from.remove(&from);
        }
        let remove_bucket = self.edges_to.get_mut(&to).map_or_else(
            || {
                debug_assert!(
                    false,
                    "edge-to index referenced a missing bucket for edge id: {edge_id:?}"
                );
                false
            },
            |edges| {
                edges.retain(|id| *id != edge_id);
                edges.is_empty()
            },
        );
        if remove_bucket {
            self.edges_to.remove(&to);
        }
        self.edge_attachments.remove(&edge_id);
        true
    }
    /// Returns `true` if an edge with `edge_id` exists in the store.
    #[must_use]
    pub fn has_edge(&self, edge_id: &EdgeId) -> bool {
        self.edge_index.contains_key(edge_id)
    }
}
} fn main() {}
