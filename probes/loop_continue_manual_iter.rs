use vstd::prelude::*;
use vstd::std_specs::iter::IteratorSpec;
use std::collections::BTreeMap;
verus! {
broadcast use vstd::std_specs::btree::group_btree_axioms;
fn count_odd_vals(m: &BTreeMap<u64, u64>) -> (n: usize)
    ensures n <= m@.len()
{
    let mut n: usize = 0;
    let mut it = m.iter();
    let ghost all = it.remaining();
    let ghost mut k: int = 0;
    loop
        invariant
            it.obeys_prophetic_iter_laws(),
            all.len() == m@.len(), 0 <= k <= all.len(), n <= k,
            it.remaining() == all.skip(k),
        decreases m@.len() - k,
    {
        match it.next() {
            None => break,
            Some((id, v)) => {
                proof { k = k + 1; }
                if *v % 2 == 0 { continue; }
                n = n + 1;
            }
        }
    }
    n
}
} fn main() {}
