use vstd::prelude::*;
use std::collections::BTreeMap;
use std::collections::BTreeSet;
verus! {
broadcast use vstd::std_specs::btree::group_btree_axioms;
use vstd::laws_cmp::*;
use vstd::std_specs::cmp::*;

pub struct GenSet<K> {
    gen: u32,
    seen: BTreeMap<K, u32>,
}

impl<K: Ord + Copy> GenSet<K> {
    pub closed spec fn view(&self) -> Set<K> {
        self.seen@.dom().filter(|k: K| self.seen@[k] == self.gen)
    }
    /// Creates a new generation set.
    pub fn new() -> (r: Self) 
        ensures r@ == Set::<K>::empty()
    {
        Self {
            gen: 1,
            seen: BTreeMap::default(),
        }
    }

    /// Returns true if `key` was marked in the current generation.
    #[inline]
    pub fn contains(&self, key: K) -> (b: bool) 
        requires vstd::laws_cmp::obeys_cmp::<K>(),
        ensures b == self@.contains(key)
    {
        matches!(self.seen.get(&key), Some(g) if *g == self.gen)
    }

    /// Marks `key` as seen in the current generation.
    #[inline]
    pub fn mark(&mut self, key: K) 
        requires vstd::laws_cmp::obeys_cmp::<K>(),
        ensures final(self)@ == old(self)@.insert(key)
    {
        self.seen.insert(key, self.gen);
    }
}

#[verifier::exec_allows_no_decreases_clause]
fn intersects_btree<T: Ord>(a: &BTreeSet<T>, b: &BTreeSet<T>) -> bool {
    let mut it_a = a.iter();
    let mut it_b = b.iter();
    let mut va = it_a.next();
    let mut vb = it_b.next();
    while let (Some(x), Some(y)) = (va, vb) {
        match x.cmp(y) {
            core::cmp::Ordering::Less => va = it_a.next(),
            core::cmp::Ordering::Greater => vb = it_b.next(),
            core::cmp::Ordering::Equal => return true,
        }
    }
    false
}

} // verus!
fn main() {}
