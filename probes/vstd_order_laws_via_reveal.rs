use vstd::prelude::*;
use vstd::std_specs::cmp::*;
use vstd::laws_cmp::*;
use vstd::laws_eq::*;
use core::cmp::Ordering;
verus! {
pub proof fn lemma_link<T: Ord>(x: T, y: T) requires obeys_cmp::<T>()
    ensures x.partial_cmp_spec(&y) == Some(x.cmp_spec(&y))
{ reveal(obeys_cmp_ord); }
pub proof fn lemma_equal<T: Ord>(x: T, y: T) requires obeys_cmp::<T>(), x.cmp_spec(&y) == Ordering::Equal
    ensures x.eq_spec(&y)
{ reveal(obeys_cmp_ord); reveal(obeys_cmp_partial_ord); reveal(obeys_partial_cmp_spec_properties); lemma_link(x, y); }
pub proof fn lemma_trans<T: Ord>(x: T, y: T, z: T) requires obeys_cmp::<T>(), x.cmp_spec(&y) == Ordering::Less, y.cmp_spec(&z) == Ordering::Less
    ensures x.cmp_spec(&z) == Ordering::Less
{ reveal(obeys_cmp_ord); reveal(obeys_cmp_partial_ord); reveal(obeys_partial_cmp_spec_properties); lemma_link(x, y); lemma_link(y, z); lemma_link(x, z); }
pub proof fn lemma_greater<T: Ord>(x: T, y: T) requires obeys_cmp::<T>(), x.cmp_spec(&y) == Ordering::Greater
    ensures y.cmp_spec(&x) == Ordering::Less
{ reveal(obeys_cmp_ord); reveal(obeys_cmp_partial_ord); reveal(obeys_partial_cmp_spec_properties); lemma_link(x, y); lemma_link(y, x); }
pub proof fn lemma_less_ne<T: Ord>(x: T, y: T) requires obeys_cmp::<T>(), x.cmp_spec(&y) == Ordering::Less
    ensures x != y
{ reveal(obeys_cmp_ord); reveal(obeys_cmp_partial_ord); reveal(obeys_partial_cmp_spec_properties); lemma_link(x, y); lemma_link(x, x); }
pub proof fn lemma_eq_is_eq<T: Ord>(x: T, y: T) requires obeys_cmp::<T>(), obeys_concrete_eq::<T>(), x.eq_spec(&y)
    ensures x == y
{ reveal(obeys_concrete_eq); }
} fn main() {}
