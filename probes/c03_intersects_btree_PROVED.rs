use vstd::prelude::*;
use vstd::std_specs::iter::IteratorSpec;
use vstd::std_specs::btree::*;
use vstd::std_specs::cmp::*;
use vstd::laws_cmp::*;
use vstd::laws_eq::*;
use std::collections::BTreeSet;
use core::cmp::Ordering;
verus! {
broadcast use {vstd::std_specs::btree::group_btree_axioms, vstd::laws_cmp::lemma_ref_obeys_cmp_spec};
pub proof fn lemma_link<T: Ord>(x: T, y: T) requires obeys_cmp::<T>()
    ensures x.partial_cmp_spec(&y) == Some(x.cmp_spec(&y))
{ reveal(obeys_cmp_ord); }
pub proof fn lemma_equal<T: Ord>(x: T, y: T) requires obeys_cmp::<T>(), x.cmp_spec(&y) == Ordering::Equal
    ensures x.eq_spec(&y)
{ reveal(obeys_cmp_ord); reveal(obeys_cmp_partial_ord); reveal(obeys_partial_cmp_spec_properties); lemma_link(x, y); }
pub proof fn lemma_trans<T: Ord>(x: T, y: T, z: T) requires obeys_cmp::<T>(), x.cmp_spec(&y) == Ordering::Less, y.cmp_spec(&z) == Ordering::Less
    ensures x.cmp_spec(&z) == Ordering::Less
{ reveal(obeys_cmp_ord); reveal(obeys_cmp_partial_ord); reveal(obeys_partial_cmp_spec_properties); lemma_link(x, y); lemma_link(y, z); lemma_link(x, z); }
pub proof fn lemma_greater<T: Ord>(x: T, y: T) requires obeys_cmp::<T>(), x.cmp_spec(&y) == Ordering::Greater
    ensures y.cmp_spec(&x) == Ordering::Less
{ reveal(obeys_cmp_ord); reveal(obeys_cmp_partial_ord); reveal(obeys_partial_cmp_spec_properties); lemma_link(x, y); lemma_link(y, x); }
pub proof fn lemma_less_ne<T: Ord>(x: T, y: T) requires obeys_cmp::<T>(), x.cmp_spec(&y) == Ordering::Less
    ensures x != y
{ reveal(obeys_cmp_ord); reveal(obeys_cmp_partial_ord); reveal(obeys_partial_cmp_spec_properties); lemma_link(x, y); lemma_link(x, x); }
pub proof fn lemma_eq_is_eq<T: Ord>(x: T, y: T) requires obeys_cmp::<T>(), obeys_concrete_eq::<T>(), x.eq_spec(&y)
    ensures x == y
{ reveal(obeys_concrete_eq); }

pub open spec fn cur<T>(r: Seq<&T>, i: int) -> Option<&T> { if 0 <= i < r.len() { Some(r[i]) } else { None } }
pub open spec fn rest<T>(r: Seq<&T>, i: int) -> Seq<&T> { if 0 <= i < r.len() { r.skip(i + 1) } else { Seq::empty() } }
pub open spec fn incr<T: Ord>(r: Seq<&T>) -> bool { forall|i: int, j: int| 0 <= i < j < r.len() ==> #[trigger] <T as OrdSpec>::cmp_spec(r[i], r[j]) == Ordering::Less }

proof fn lemma_incr<T: Ord>(r: Seq<&T>)
    requires obeys_cmp::<T>(), increasing_seq(r)
    ensures incr(r)
{
    assert(obeys_cmp::<&T>());
    assert(forall|i: int, j: int| 0 <= i < j < r.len() ==> #[trigger] <&T as OrdSpec>::cmp_spec(&r[i], &r[j]) == Ordering::Less);
    assert forall|i: int, j: int| 0 <= i < j < r.len() implies #[trigger] <T as OrdSpec>::cmp_spec(r[i], r[j]) == Ordering::Less by {
        assert(<&T as OrdSpec>::cmp_spec(&r[i], &r[j]) == Ordering::Less);
    }
}

fn intersects_btree<T: Ord>(a: &BTreeSet<T>, b: &BTreeSet<T>) -> (res: bool)
    requires obeys_cmp::<T>(), obeys_concrete_eq::<T>(),
    ensures res == !a@.disjoint(b@),
{
    let mut it_a = a.iter();
    let mut it_b = b.iter();
    let ghost ra = it_a.remaining();
    let ghost rb = it_b.remaining();
    proof { lemma_incr(ra); lemma_incr(rb); }
    let mut va = it_a.next();
    let mut vb = it_b.next();
    let ghost mut ia: int = 0;
    let ghost mut ib: int = 0;
    while let (Some(x), Some(y)) = (va, vb) 
        invariant
            obeys_cmp::<T>(), obeys_concrete_eq::<T>(),
            it_a.obeys_prophetic_iter_laws(), it_b.obeys_prophetic_iter_laws(),
            incr(ra), incr(rb),
            ra.unref().to_set() == a@, rb.unref().to_set() == b@,
            ra.len() == a@.len(), rb.len() == b@.len(),
            0 <= ia <= ra.len(), 0 <= ib <= rb.len(),
            va == cur(ra, ia), vb == cur(rb, ib),
            it_a.remaining() == rest(ra, ia), it_b.remaining() == rest(rb, ib),
            forall|i: int| 0 <= i < ia ==> !b@.contains(*#[trigger] ra[i]),
            forall|j: int| 0 <= j < ib ==> !a@.contains(*#[trigger] rb[j]),
        ensures !(va is Some && vb is Some),
        decreases (a@.len() - ia) + (b@.len() - ib),
    {
        proof {
            reveal(obeys_cmp_ord); reveal(obeys_cmp_partial_ord);
            assert(<T as OrdSpec>::obeys_cmp_spec());
            assert(ra.unref()[ia] == *x); assert(a@.contains(*x));
            assert(rb.unref()[ib] == *y); assert(b@.contains(*y));
        }
        match x.cmp(y) {
            core::cmp::Ordering::Less => { 
                proof {
                    assert forall|k: int| 0 <= k < rb.len() implies *#[trigger] rb[k] != *x by {
                        if k < ib { } else if k == ib { lemma_less_ne(*x, *y); } else { 
                            assert(<T as OrdSpec>::cmp_spec(rb[ib], rb[k]) == Ordering::Less);
                            lemma_trans(*x, *y, *rb[k]); lemma_less_ne(*x, *rb[k]); }
                    }
                    assert(!b@.contains(*x)) by { if b@.contains(*x) { let k = choose|k: int| 0 <= k < rb.unref().len() && rb.unref()[k] == *x; assert(*rb[k] == *x); } }
                    assert(rest(ra, ia).len() > 0 ==> rest(ra, ia)[0] == ra[ia + 1]);
                    if ia + 1 < a@.len() { assert(rest(ra, ia + 1) =~= rest(ra, ia).skip(1)); }
                }
                va = it_a.next(); proof { ia = ia + 1; } 
            },
            core::cmp::Ordering::Greater => { 
                proof {
                    lemma_greater(*x, *y);
                    assert forall|k: int| 0 <= k < ra.len() implies *#[trigger] ra[k] != *y by {
                        if k < ia { } else if k == ia { lemma_less_ne(*y, *x); } else { 
                            assert(<T as OrdSpec>::cmp_spec(ra[ia], ra[k]) == Ordering::Less);
                            lemma_trans(*y, *x, *ra[k]); lemma_less_ne(*y, *ra[k]); }
                    }
                    assert(!a@.contains(*y)) by { if a@.contains(*y) { let k = choose|k: int| 0 <= k < ra.unref().len() && ra.unref()[k] == *y; assert(*ra[k] == *y); } }
                    assert(rest(rb, ib).len() > 0 ==> rest(rb, ib)[0] == rb[ib + 1]);
                    if ib + 1 < b@.len() { assert(rest(rb, ib + 1) =~= rest(rb, ib).skip(1)); }
                }
                vb = it_b.next(); proof { ib = ib + 1; } 
            },
            core::cmp::Ordering::Equal => { proof { lemma_equal(*x, *y); lemma_eq_is_eq(*x, *y); } return true },
        }
    }
    proof {
        assert forall|k: T| a@.contains(k) implies !b@.contains(k) by {
            let i = choose|i: int| 0 <= i < ra.unref().len() && ra.unref()[i] == k;
            if i < ia { assert(*ra[i] == k); } else {
                assert(ia < ra.len()); assert(va is Some); assert(!(va is Some && vb is Some)); assert(vb is None); assert(ib == rb.len());
                if b@.contains(k) { let j = choose|j: int| 0 <= j < rb.unref().len() && rb.unref()[j] == k; assert(*rb[j] == k); assert(j < ib); }
            }
        }
    }
    false
}
} fn main() {}
