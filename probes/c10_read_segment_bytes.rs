use vstd::prelude::*;
verus! {
pub type Hash = [u8; 32];
pub struct WalFrame { pub x: u64 }
pub struct WalTransactionCommit { pub y: u64 }
pub enum WalDecodeError { UnexpectedEof, Other }
pub enum WalStoreError { SegmentRecordDigestMismatch, Decode(WalDecodeError), UnknownDiskRecordKind(u8) }
impl From<WalDecodeError> for WalStoreError { fn from(e: WalDecodeError) -> Self { WalStoreError::Decode(e) } }
#[verifier::external_body] fn decode_frame(p: &[u8]) -> Result<WalFrame, WalDecodeError> { unimplemented!() }
#[verifier::external_body] fn decode_commit(p: &[u8]) -> Result<WalTransactionCommit, WalDecodeError> { unimplemented!() }
#[verifier::external_body] fn disk_record_digest(kind: u8, payload: &[u8]) -> Hash { unimplemented!() }
#[verifier::external_body] fn shim_u64_from_le(b: [u8; 8]) -> u64 { u64::from_le_bytes(b) }
const WAL_SEGMENT_RECORD_MAGIC: &'static [u8; 8] = b"ECWALR1!";
#[verifier::exec_allows_no_decreases_clause]
fn read_segment_bytes(
    bytes: &[u8],
) -> Result<(Vec<WalFrame>, Vec<WalTransactionCommit>, bool), WalStoreError> {
    let mut offset = 0usize;
    let mut frames = Vec::new();
    let mut commits = Vec::new();
    let mut torn_tail = false;
    while offset < bytes.len() {
        let header_len = WAL_SEGMENT_RECORD_MAGIC.len() + 1 + 8;
        let Some(header_end) = offset.checked_add(header_len) else {
            torn_tail = true;
            break;
        };
        if header_end > bytes.len() {
            torn_tail = true;
            break;
        }
        if bytes.get(offset..offset + WAL_SEGMENT_RECORD_MAGIC.len())
            != Some(WAL_SEGMENT_RECORD_MAGIC.as_slice())
        {
            return Err(WalStoreError::SegmentRecordDigestMismatch);
        }
        offset += WAL_SEGMENT_RECORD_MAGIC.len();
        let kind = bytes[offset];
        offset += 1;
        let mut len = [0; 8];
        len.copy_from_slice(&bytes[offset..offset + 8]);
        offset += 8;
        let payload_len = match usize::try_from(shim_u64_from_le(len)) {
            Ok(value) => value,
            Err(_) => return Err(WalStoreError::Decode(WalDecodeError::UnexpectedEof)),
        };
        let Some(payload_end) = offset.checked_add(payload_len) else {
            torn_tail = true;
            break;
        };
        let Some(digest_end) = payload_end.checked_add(32) else {
            torn_tail = true;
            break;
        };
        if digest_end > bytes.len() {
            torn_tail = true;
            break;
        }
        let payload = &bytes[offset..payload_end];
        let digest = &bytes[payload_end..digest_end];
        if digest != disk_record_digest(kind, payload) {
            return Err(WalStoreError::SegmentRecordDigestMismatch);
        }
        match kind {
            1 => frames.push(decode_frame(payload)?),
            2 => commits.push(decode_commit(payload)?),
            other => return Err(WalStoreError::UnknownDiskRecordKind(other)),
        }
        offset = digest_end;
    }
    Ok((frames, commits, torn_tail))
}
} fn main() {}
