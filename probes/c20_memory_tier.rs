use vstd::prelude::*;
use std::collections::{HashMap, HashSet};
use std::sync::Arc;
verus! {
#[derive(Clone, Copy, PartialEq, Eq, Hash, PartialOrd, Ord, Debug)]
pub struct BlobHash(pub [u8; 32]);
pub enum CasError { HashMismatch { expected: BlobHash, computed: BlobHash } }
pub uninterp spec fn spec_blob_hash(b: Seq<u8>) -> BlobHash;
#[verifier::external_body] pub fn blob_hash(bytes: &[u8]) -> (r: BlobHash) ensures r == spec_blob_hash(bytes@) { unimplemented!() }
/// In-memory content-addressed blob store.
///
/// Stores blobs in a `HashMap<BlobHash, Arc<[u8]>>` and tracks a pin-set for
/// retention roots. An optional byte budget is advisory — `put` always succeeds
/// but [`is_over_budget`](MemoryTier::is_over_budget) reports when the budget is
/// exceeded. Enforcement (eviction of unpinned blobs) is Phase 3 GC's job.
///
/// # Pinning Invariants
///
/// - `pin` on a missing blob is legal (records intent before the blob arrives).
/// - `put` of a pre-pinned hash preserves the pin.
/// - `unpin` on a missing blob is a no-op.
/// - Pin count is set cardinality, not reference count.
pub struct MemoryTier {
    blobs: HashMap<BlobHash, Arc<[u8]>>,
    pins: HashSet<BlobHash>,
    byte_count: usize,
    max_bytes: Option<usize>,
}
impl MemoryTier {
    fn put(&mut self, bytes: &[u8]) -> BlobHash {
        let hash = blob_hash(bytes);
        if let std::collections::hash_map::Entry::Vacant(e) = self.blobs.entry(hash) {
            self.byte_count += bytes.len();
            e.insert(Arc::from(bytes));
        }
        hash
    }
    fn put_verified(&mut self, expected: BlobHash, bytes: &[u8]) -> Result<(), CasError> {
        // Fast path: blob already stored — skip hashing entirely.
        if self.blobs.contains_key(&expected) {
            return Ok(());
        }
        let computed = blob_hash(bytes);
        if computed != expected {
            return Err(CasError::HashMismatch { expected, computed });
        }
        self.byte_count += bytes.len();
        self.blobs.insert(computed, Arc::from(bytes));
        Ok(())
    }
    fn get(&self, hash: &BlobHash) -> Option<Arc<[u8]>> {
        self.blobs.get(hash).cloned()
    }
    fn has(&self, hash: &BlobHash) -> bool {
        self.blobs.contains_key(hash)
    }
    fn pin(&mut self, hash: &BlobHash) {
        self.pins.insert(*hash);
    }
    fn unpin(&mut self, hash: &BlobHash) {
        self.pins.remove(hash);
    }
}
} fn main() {}
