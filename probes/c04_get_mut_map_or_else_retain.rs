#![feature(allocator_api)]
use vstd::prelude::*;
use std::collections::BTreeMap;
verus! {
broadcast use vstd::std_specs::btree::group_btree_axioms;
pub assume_specification<T, U, D: FnOnce() -> U, F: FnOnce(T) -> U>[Option::<T>::map_or_else](o: Option<T>, default: D, f: F) -> (r: U)
    requires o is None ==> default.requires(()), o is Some ==> f.requires((o->0,)),
    ensures o is None ==> default.ensures((), r), o is Some ==> f.ensures((o->0,), r);

pub assume_specification<T, A: core::alloc::Allocator, F: FnMut(&T) -> bool>[Vec::<T, A>::retain](v: &mut Vec<T, A>, f: F)
    requires forall|x: &T| #[trigger] f.requires((x,)),
    ensures 
        final(v)@.len() <= old(v)@.len(),
        forall|i: int| 0 <= i < final(v)@.len() ==> exists|j: int| 0 <= j < old(v)@.len() && old(v)@[j] == #[trigger] final(v)@[i] && f.ensures((&old(v)@[j],), true),
        forall|j: int| 0 <= j < old(v)@.len() && f.ensures((&old(v)@[j],), true) ==> final(v)@.contains(#[trigger] old(v)@[j]);

fn probe(m: &mut BTreeMap<u64, Vec<u64>>, k: u64, id: u64) -> (b: bool)
    ensures 
        old(m)@.contains_key(k) ==> final(m)@.contains_key(k) && !final(m)@[k]@.contains(id) && b == (final(m)@[k]@.len() == 0),
        forall|k2: u64| k2 != k ==> (final(m)@.contains_key(k2) == old(m)@.contains_key(k2)) && (old(m)@.contains_key(k2) ==> final(m)@[k2] == old(m)@[k2]),
{
    let bucket_is_empty = m.get_mut(&k).map_or_else(
        || { false },
        |edges| {
            let before = edges.len();
            edges.retain(|e| *e != id);
            edges.is_empty()
        },
    );
    bucket_is_empty
}
} fn main() {}
