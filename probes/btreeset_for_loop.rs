use vstd::prelude::*;
use std::collections::BTreeSet;
use std::collections::BTreeMap;
use vstd::std_specs::iter::IteratorSpec;
verus! {
broadcast use vstd::std_specs::btree::group_btree_axioms;

fn any_in2(s: &BTreeSet<u64>, m: &BTreeMap<u64,u32>) -> (b: bool)
    ensures b == exists|k: u64| s@.contains(k) && m@.contains_key(k)
{
    for key in it: s.iter() 
        invariant
            it.snapshot@.remaining().unref().to_set() == s@,
            it.snapshot@.remaining() == it.history@ + it.iter.remaining(),
            forall|i: int| 0 <= i < it.history@.len() ==> !m@.contains_key(*#[trigger] it.history@[i]),
    {
        if m.contains_key(key) {
            assert(s@.contains(*key));
            return true;
        }
    }
    proof { assert forall|k: u64| s@.contains(k) implies !m@.contains_key(k) by { } }
    false
}
} // verus!
fn main() {}
