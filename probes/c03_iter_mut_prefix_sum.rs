use vstd::prelude::*;
use vstd::std_specs::iter::IteratorSpec;
verus! {

pub open spec fn sum_to(s: Seq<u32>, k: int) -> int decreases k {
    if k <= 0 { 0 } else { sum_to(s, k - 1) + s[k - 1] as int }
}

proof fn lemma_sum_mono(s: Seq<u32>, a: int, b: int)
    requires 0 <= a <= b <= s.len()
    ensures sum_to(s, a) <= sum_to(s, b)
    decreases b - a
{ if a < b { lemma_sum_mono(s, a, b - 1); } }

fn prefix(counts: &mut Vec<u32>)
    requires sum_to(old(counts)@, old(counts)@.len() as int) <= u32::MAX,
    ensures final(counts)@.len() == old(counts)@.len(),
       forall|i: int| 0 <= i < old(counts)@.len() ==> final(counts)@[i] as int == sum_to(old(counts)@, i),
{
    let mut sum: u32 = 0;
    for c in it: counts.iter_mut() 
        invariant
            it.snapshot@.remaining().len() == old(counts)@.len(),
            it.snapshot@.remaining() == it.history@ + it.iter.remaining(),
            forall|i: int| 0 <= i < it.snapshot@.remaining().len() ==> *(#[trigger] it.snapshot@.remaining()[i]) == old(counts)@[i],
            forall|i: int| 0 <= i < it.snapshot@.remaining().len() ==> *final(#[trigger] it.snapshot@.remaining()[i]) == final(counts)@[i],
            sum_to(old(counts)@, old(counts)@.len() as int) <= u32::MAX,
            sum as int == sum_to(old(counts)@, it.history@.len() as int),
            forall|i: int| 0 <= i < it.history@.len() ==> *final(#[trigger] it.history@[i]) as int == sum_to(old(counts)@, i),
    {
        proof { 
            let k = it.history@.len() as int;
            assert(*c == old(counts)@[k]) by { assert(it.snapshot@.remaining()[k] == c); }
            lemma_sum_mono(old(counts)@, k + 1, old(counts)@.len() as int);
        }
        let t = *c;
        *c = sum;
        sum = sum.wrapping_add(t);
        proof { let k = it.history@.len() as int; assert(sum_to(old(counts)@, k + 1) == sum_to(old(counts)@, k) + old(counts)@[k] as int); }
    }
}
} // verus!
fn main() {}
