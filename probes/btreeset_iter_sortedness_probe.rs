use vstd::prelude::*;
use vstd::std_specs::iter::IteratorSpec;
use vstd::std_specs::btree::*;
use vstd::std_specs::cmp::*;
use std::collections::BTreeSet;
use core::cmp::Ordering;
verus! {
broadcast use vstd::std_specs::btree::group_btree_axioms;
fn probe(a: &BTreeSet<u64>) {
    let it_a = a.iter();
    let ghost ra = it_a.remaining();
    assert(increasing_seq(ra));                          // E
    assert(forall|i: int, j: int| 0 <= i < j < ra.len() ==> #[trigger] OrdSpec::cmp_spec(ra[i], &ra[j]) == Ordering::Less);  // F
    assert(forall|i: int, j: int| 0 <= i < j < ra.len() ==> *(#[trigger] ra[i]) < *(#[trigger] ra[j]));  // G
}
fn probe_generic<T: Ord>(a: &BTreeSet<T>) 
    requires vstd::laws_cmp::obeys_cmp::<T>()
{
    let it_a = a.iter();
    let ghost ra = it_a.remaining();
    assert(increasing_seq(ra));                          // H
    assert(forall|i: int, j: int| 0 <= i < j < ra.len() ==> #[trigger] OrdSpec::cmp_spec(ra[i], &ra[j]) == Ordering::Less);  // I
    assert(forall|i: int, j: int| 0 <= i < j < ra.len() ==> #[trigger] OrdSpec::cmp_spec(&*ra[i], &*ra[j]) == Ordering::Less);  // J
}
} fn main() {}
