use vstd::prelude::*;
verus! {
pub type Hash = [u8; 32]; pub type ContentHash = [u8; 32]; #[derive(Clone, Debug, PartialEq, Eq)] pub struct Bytes { pub v: Vec<u8> }
/// Strongly typed identifier for a node in the skeleton graph.
///
/// `NodeId` is an opaque 32-byte identifier (`Hash`). Many nodes in Echo use
/// stable, label-derived ids via [`make_node_id`] (`blake3("node:" || label)`),
/// but this is a convention, not a global constraint.
///
/// Other subsystems may construct content-addressed `NodeId`s derived from
/// different domain-separated hashes (for example, inbox/ledger event nodes
/// keyed by `intent_id = blake3("intent:" || intent_bytes)`).
///
/// Tooling must not assume that every `NodeId` corresponds to a human-readable
/// label, or that ids are reversible back into strings.
#[repr(transparent)]
#[derive(Clone, Copy, PartialEq, Eq, PartialOrd, Ord, Hash, Debug)]
pub struct NodeId(pub Hash);
/// Strongly typed identifier for the logical kind of a node or component.
///
/// `TypeId` values are produced by [`make_type_id`] which hashes a label; using
/// a dedicated wrapper prevents accidental mixing of node and type identifiers.
#[repr(transparent)]
#[derive(Clone, Copy, PartialEq, Eq, PartialOrd, Ord, Hash, Debug)]
pub struct TypeId(pub Hash);
/// Identifier for a directed edge within the graph.
#[repr(transparent)]
#[derive(Clone, Copy, PartialEq, Eq, PartialOrd, Ord, Hash, Debug)]
pub struct EdgeId(pub Hash);
/// Strongly typed identifier for a WARP instance.
///
/// A `WarpId` namespaces node/edge ids for Stage B1 "flattened indirection"
/// descended attachments: nodes and edges live in instance-scoped graphs
/// addressed by `(warp_id, local_id)`.
#[repr(transparent)]
#[derive(Clone, Copy, PartialEq, Eq, PartialOrd, Ord, Hash, Debug)]
pub struct WarpId(pub Hash);
/// Instance-scoped identifier for a node.
#[derive(Clone, Copy, PartialEq, Eq, PartialOrd, Ord, Hash, Debug)]
pub struct NodeKey {
    /// Warp instance that namespaces the local node id.
    pub warp_id: WarpId,
    /// Local node identifier within the instance.
    pub local_id: NodeId,
}
/// Instance-scoped identifier for an edge.
#[derive(Clone, Copy, PartialEq, Eq, PartialOrd, Ord, Hash, Debug)]
pub struct EdgeKey {
    /// Warp instance that namespaces the local edge id.
    pub warp_id: WarpId,
    /// Local edge identifier within the instance.
    pub local_id: EdgeId,
}
/// Attachment plane selector.
///
/// In Paper I notation, vertex attachments are `α` and edge attachments are `β`.
#[derive(Debug, Clone, Copy, PartialEq, Eq, PartialOrd, Ord, Hash)]
pub enum AttachmentPlane {
    /// Vertex/node attachment plane (`α`).
    Alpha,
    /// Edge attachment plane (`β`).
    Beta,
}
/// Owner identity for an attachment slot.
#[derive(Debug, Clone, Copy, PartialEq, Eq, PartialOrd, Ord, Hash)]
pub enum AttachmentOwner {
    /// Attachment owned by a node.
    Node(NodeKey),
    /// Attachment owned by an edge.
    Edge(EdgeKey),
}
/// First-class identity for an attachment slot.
///
/// This is the key used for Stage B1 “descent chain” footprinting and slicing:
/// changes to an attachment slot (especially `Descend`) must invalidate matches
/// inside descendant instances deterministically.
#[derive(Debug, Clone, Copy, PartialEq, Eq, PartialOrd, Ord, Hash)]
pub struct AttachmentKey {
    /// Owner of the slot.
    pub owner: AttachmentOwner,
    /// Attachment plane selector.
    pub plane: AttachmentPlane,
}
/// Typed, opaque payload attached to a node or edge.
///
/// This is the depth-0 “atom” payload for the attachment plane:
/// `AtomPayload = Atom(TypeId, Bytes)`.
///
/// Laws / invariants:
/// - `type_id` is part of the deterministic boundary and must participate in
///   canonical encodings and digests.
/// - `bytes` are opaque to the core store and must not be treated as hidden
///   skeleton structure. Any dependency that matters for matching, causality,
///   slicing, or rewrite applicability must be expressed as explicit skeleton
///   nodes/edges/ports.
#[derive(Clone, Debug, PartialEq, Eq)]
pub struct AtomPayload {
    /// Type identifier describing how to interpret `bytes`.
    pub type_id: TypeId,
    /// Opaque payload bytes.
    pub bytes: Bytes,
}
/// Attachment value stored in the attachment plane.
///
/// Depth-0 attachments are always [`AttachmentValue::Atom`].
/// Stage B1 introduces [`AttachmentValue::Descend`] to model recursive WARPs as
/// flattened indirection.
#[derive(Clone, Debug, PartialEq, Eq)]
pub enum AttachmentValue {
    /// Depth-0 atom payload.
    Atom(AtomPayload),
    /// Flattened indirection to another WARP instance.
    Descend(WarpId),
}
/// Materialised record for a single node stored in the graph.
///
/// Node records are **skeleton-plane only**: they describe structural identity
/// (currently: the node type) but do not carry attachment payloads.
///
/// Attachment-plane payloads are stored separately (see [`crate::AttachmentValue`])
/// and are addressed via [`crate::AttachmentKey`] / [`crate::SlotId`].
///
/// Invariants
/// - `ty` must be a valid type identifier in the current schema.
/// - The node identifier is not embedded here; the store supplies it externally.
#[derive(Clone, Debug, PartialEq, Eq)]
pub struct NodeRecord {
    /// Type identifier describing the node.
    pub ty: TypeId,
}
/// Materialised record for a single edge stored in the graph.
///
/// Edge records are **skeleton-plane only**: they describe the structural link
/// between two nodes (from/to) and the link's type, but do not carry
/// attachment payloads.
///
/// Attachment-plane payloads for edges are stored separately (see
/// [`crate::AttachmentValue`]) and are addressed via [`crate::AttachmentKey`]
/// (using the edge's `id`).
///
/// Invariants
/// - `id` is stable across runs because it is derived via [`crate::make_edge_id`].
/// - `from` and `to` reference existing nodes in the same store.
/// - `ty` must be a valid edge type in the current schema.
#[derive(Clone, Debug, PartialEq, Eq)]
pub struct EdgeRecord {
    /// Stable identifier for the edge (see [`crate::make_edge_id`]).
    pub id: EdgeId,
    /// Source node identifier.
    pub from: NodeId,
    /// Destination node identifier.
    pub to: NodeId,
    /// Type identifier describing the edge.
    pub ty: TypeId,
}
/// Metadata record describing one WARP instance (a “layer”).
///
/// Instances are addressed by [`WarpId`]. Each instance has a designated root
/// node id within its local skeleton store. Descended instances optionally
/// record the attachment slot that descends into them (`parent`), enabling
/// deterministic “include the portal chain” slicing without searching the
/// entire attachment plane.
#[derive(Debug, Clone, PartialEq, Eq)]
pub struct WarpInstance {
    /// Instance identifier (namespace for local node/edge ids).
    pub warp_id: WarpId,
    /// Root node id within the instance's local [`GraphStore`].
    pub root_node: NodeId,
    /// Attachment slot that descends into this instance (`None` for the root instance).
    pub parent: Option<AttachmentKey>,
}
/// A canonical delta operation applied to the graph store.
#[derive(Debug, Clone, PartialEq, Eq)]
pub enum WarpOp {
    /// Open a descended attachment portal atomically (Stage B1.1).
    ///
    /// This is the canonical authoring operation for descended attachments:
    /// it is illegal for a replay/slice to observe a “dangling portal”
    /// (`Descend(child_warp)` without a corresponding `WarpInstance`), or an
    /// “orphan instance” (a `WarpInstance` whose `parent` slot does not point to it).
    ///
    /// Semantics:
    /// - Ensure `WarpInstance(child_warp)` exists with `parent = Some(key)` and
    ///   `root_node = child_root`.
    /// - Ensure the child root node exists (via `init`).
    /// - Set `Attachment[key] = Descend(child_warp)`.
    OpenPortal {
        /// Attachment slot key that will point to the child instance.
        key: AttachmentKey,
        /// Child instance identifier.
        child_warp: WarpId,
        /// Root node id within the child instance.
        child_root: NodeId,
        /// How to initialize/validate the child instance root.
        init: PortalInit,
    },
    /// Insert or replace warp instance metadata (Stage B1).
    UpsertWarpInstance {
        /// Instance metadata record.
        instance: WarpInstance,
    },
    /// Delete a warp instance and all its contents.
    DeleteWarpInstance {
        /// Instance identifier to delete.
        warp_id: WarpId,
    },
    /// Insert or replace a node record.
    UpsertNode {
        /// Node identifier being inserted or replaced (instance-scoped).
        node: NodeKey,
        /// Full node record contents.
        record: NodeRecord,
    },
    /// Delete a node record.
    DeleteNode {
        /// Node identifier being deleted (instance-scoped).
        node: NodeKey,
    },
    /// Insert or replace an edge record.
    UpsertEdge {
        /// Instance containing the edge.
        warp_id: WarpId,
        /// Full edge record contents.
        record: EdgeRecord,
    },
    /// Delete an edge record from the outbound edge list of `from`.
    DeleteEdge {
        /// Instance containing the edge.
        warp_id: WarpId,
        /// Source node bucket holding the edge.
        from: NodeId,
        /// Edge identifier being deleted.
        edge_id: EdgeId,
    },
    /// Set (or clear) an attachment slot value.
    SetAttachment {
        /// Attachment slot key.
        key: AttachmentKey,
        /// New value (`None` clears the slot).
        value: Option<AttachmentValue>,
    },
}
/// Initialization policy for [`WarpOp::OpenPortal`].
#[derive(Debug, Clone, PartialEq, Eq)]
pub enum PortalInit {
    /// Create a new child instance with only a root node (using `root_record`).
    Empty {
        /// Record to use when creating the child root node.
        root_record: NodeRecord,
    },
    /// Require that the child instance and root node already exist.
    RequireExisting,
}
/// Canonical ordering key for [`WarpOp`] used by patch construction and merge sorting.
///
/// This is a compact, byte-stable representation of an op's ordering identity:
/// - `kind` defines the global phase ordering across op variants
/// - `warp`, `a`, and `b` encode the op's target within that phase
///
/// # Invariants
///
/// - Keys are totally ordered and deterministic across runs.
/// - Two ops with identical keys are considered duplicates for deduplication purposes.
/// - The ordering ensures structural dependencies (instances before nodes, deletes before upserts).
///
/// # Usage
///
/// Primarily used internally by [`WarpTickPatchV1::new`] for canonicalization and
/// `merge_deltas` (feature-gated) for deterministic merge ordering.
#[derive(Debug, Clone, Copy, PartialEq, Eq, PartialOrd, Ord)]
pub struct WarpOpKey {
    kind: u8,
    warp: ContentHash,
    a: ContentHash,
    b: ContentHash,
}
impl AttachmentPlane { const fn tag(self) -> (r: u8) ensures r == (match self { AttachmentPlane::Alpha => 1u8, AttachmentPlane::Beta => 2u8 }) { match self { Self::Alpha => 1, Self::Beta => 2, } } }
impl AttachmentOwner { const fn tag(self) -> (r: u8) ensures r == (match self { AttachmentOwner::Node(_) => 1u8, AttachmentOwner::Edge(_) => 2u8 }) { match self { Self::Node(_) => 1, Self::Edge(_) => 2, } } }
impl AttachmentKey {
    pub(crate) const fn tag(self) -> (r: (u8, u8))
        ensures r.0 == owner_tag(self), r.1 == plane_tag(self)
    {
        (self.owner.tag(), self.plane.tag())
    }
}
impl WarpOp {
    /// Canonical replay ordering key for this operation.
    ///
    /// This ordering is used for two purposes:
    /// - to define the deterministic replay order of a tick patch, and
    /// - to define which operations are considered "the same" for patch construction
    ///   (see [`WarpTickPatchV1::new`], which dedupes by this key with last-wins semantics).
    ///
    /// Ordering rationale (v2):
    /// - Instance/portal operations sort before per-instance skeleton edits so that stores exist
    ///   before nodes/edges/attachments are applied.
    /// - Skeleton deletions sort before skeleton upserts (delete-before-upsert) to support
    ///   within-tick replacement semantics for nodes/edges.
    /// - Attachment writes sort last so they cannot reference missing skeleton elements.
    ///
    /// Note: `UpsertWarpInstance` sorts before `DeleteWarpInstance` even though node/edge ops
    /// use delete-before-upsert. Patches are expected not to contain both operations for the
    /// same `warp_id`; if they do, this ordering makes the resulting state (and any subsequent
    /// invalid references) deterministic rather than silently ambiguous.
    pub fn sort_key(&self) -> (r: WarpOpKey)
        ensures keyv(r).kind == spec_sort_key(*self).kind, keyv(r).warp =~= spec_sort_key(*self).warp, keyv(r).a =~= spec_sort_key(*self).a, keyv(r).b =~= spec_sort_key(*self).b,
    {
        match self {
            Self::OpenPortal { key, .. } => {
                let (owner_tag, plane_tag) = key.tag();
                let (warp, local) = match key.owner {
                    AttachmentOwner::Node(node) => ((node.warp_id).0, (node.local_id).0),
                    AttachmentOwner::Edge(edge) => ((edge.warp_id).0, (edge.local_id).0),
                };
                WarpOpKey {
                    kind: 1,
                    warp,
                    a: {
                        let mut buf = [0u8; 32];
                        buf[0] = owner_tag;
                        buf[1] = plane_tag;
                        buf
                    },
                    b: local,
                }
            }
            Self::UpsertWarpInstance { instance } => WarpOpKey {
                kind: 2,
                warp: (instance.warp_id).0,
                a: (instance.warp_id).0,
                b: [0u8; 32],
            },
            Self::DeleteWarpInstance { warp_id } => WarpOpKey {
                kind: 3,
                warp: warp_id.0,
                a: warp_id.0,
                b: [0u8; 32],
            },
            Self::DeleteEdge {
                warp_id,
                from,
                edge_id,
            } => WarpOpKey {
                kind: 4,
                warp: warp_id.0,
                a: from.0,
                b: edge_id.0,
            },
            Self::DeleteNode { node } => WarpOpKey {
                kind: 5,
                warp: (node.warp_id).0,
                a: (node.local_id).0,
                b: [0u8; 32],
            },
            Self::UpsertNode { node, .. } => WarpOpKey {
                kind: 6,
                warp: (node.warp_id).0,
                a: (node.local_id).0,
                b: [0u8; 32],
            },
            Self::UpsertEdge { warp_id, record } => WarpOpKey {
                kind: 7,
                warp: warp_id.0,
                a: record.from.0,
                b: record.id.0,
            },
            Self::SetAttachment { key, .. } => {
                let (owner_tag, plane_tag) = key.tag();
                // Stable ordering: (kind, owner_tag, plane_tag, warp_id, local_id).
                let (warp, local) = match key.owner {
                    AttachmentOwner::Node(node) => ((node.warp_id).0, (node.local_id).0),
                    AttachmentOwner::Edge(edge) => ((edge.warp_id).0, (edge.local_id).0),
                };
                WarpOpKey {
                    kind: 8,
                    warp,
                    a: {
                        let mut buf = [0u8; 32];
                        buf[0] = owner_tag;
                        buf[1] = plane_tag;
                        buf
                    },
                    b: local,
                }
            }
        }
    }
}


/// Target slot of an op, written from the replay spec (docs/spec/warp-tick-patch.md): what the op addresses.
pub enum Target { Instance(WarpId), Node(NodeKey), EdgeInBucket(WarpId, NodeId, EdgeId), Attachment(AttachmentKey) }
pub open spec fn variant_no(op: WarpOp) -> int {
    match op {
        WarpOp::OpenPortal{..} => 1, WarpOp::UpsertWarpInstance{..} => 2, WarpOp::DeleteWarpInstance{..} => 3,
        WarpOp::DeleteEdge{..} => 4, WarpOp::DeleteNode{..} => 5, WarpOp::UpsertNode{..} => 6, WarpOp::UpsertEdge{..} => 7, WarpOp::SetAttachment{..} => 8,
    }
}
pub open spec fn target(op: WarpOp) -> Target {
    match op {
        WarpOp::OpenPortal{ key, .. } => Target::Attachment(key),
        WarpOp::UpsertWarpInstance{ instance } => Target::Instance(instance.warp_id),
        WarpOp::DeleteWarpInstance{ warp_id } => Target::Instance(warp_id),
        WarpOp::DeleteEdge{ warp_id, from, edge_id } => Target::EdgeInBucket(warp_id, from, edge_id),
        WarpOp::DeleteNode{ node } => Target::Node(node),
        WarpOp::UpsertNode{ node, .. } => Target::Node(node),
        WarpOp::UpsertEdge{ warp_id, record } => Target::EdgeInBucket(warp_id, record.from, record.id),
        WarpOp::SetAttachment{ key, .. } => Target::Attachment(key),
    }
}
pub struct KeyV { pub kind: u8, pub warp: Seq<u8>, pub a: Seq<u8>, pub b: Seq<u8> }
pub open spec fn zeros() -> Seq<u8> { Seq::new(32, |i: int| 0u8) }
pub open spec fn owner_warp(k: AttachmentKey) -> Seq<u8> { match k.owner { AttachmentOwner::Node(n) => n.warp_id.0@, AttachmentOwner::Edge(e) => e.warp_id.0@ } }
pub open spec fn owner_local(k: AttachmentKey) -> Seq<u8> { match k.owner { AttachmentOwner::Node(n) => n.local_id.0@, AttachmentOwner::Edge(e) => e.local_id.0@ } }
pub open spec fn owner_tag(k: AttachmentKey) -> u8 { match k.owner { AttachmentOwner::Node(_) => 1, AttachmentOwner::Edge(_) => 2 } }
pub open spec fn plane_tag(k: AttachmentKey) -> u8 { match k.plane { AttachmentPlane::Alpha => 1, AttachmentPlane::Beta => 2 } }
pub open spec fn tag_buf(k: AttachmentKey) -> Seq<u8> { Seq::new(32, |i: int| if i == 0 { owner_tag(k) } else if i == 1 { plane_tag(k) } else { 0u8 }) }
pub open spec fn spec_sort_key(op: WarpOp) -> KeyV {
    match op {
        WarpOp::OpenPortal{ key, .. } => KeyV { kind: 1, warp: owner_warp(key), a: tag_buf(key), b: owner_local(key) },
        WarpOp::UpsertWarpInstance{ instance } => KeyV { kind: 2, warp: instance.warp_id.0@, a: instance.warp_id.0@, b: zeros() },
        WarpOp::DeleteWarpInstance{ warp_id } => KeyV { kind: 3, warp: warp_id.0@, a: warp_id.0@, b: zeros() },
        WarpOp::DeleteEdge{ warp_id, from, edge_id } => KeyV { kind: 4, warp: warp_id.0@, a: from.0@, b: edge_id.0@ },
        WarpOp::DeleteNode{ node } => KeyV { kind: 5, warp: node.warp_id.0@, a: node.local_id.0@, b: zeros() },
        WarpOp::UpsertNode{ node, .. } => KeyV { kind: 6, warp: node.warp_id.0@, a: node.local_id.0@, b: zeros() },
        WarpOp::UpsertEdge{ warp_id, record } => KeyV { kind: 7, warp: warp_id.0@, a: record.from.0@, b: record.id.0@ },
        WarpOp::SetAttachment{ key, .. } => KeyV { kind: 8, warp: owner_warp(key), a: tag_buf(key), b: owner_local(key) },
    }
}
pub closed spec fn keyv(k: WarpOpKey) -> KeyV { KeyV { kind: k.kind, warp: k.warp@, a: k.a@, b: k.b@ } }

/// C01(c): equal canonical keys  ==>  same op kind and same target slot.
pub proof fn theorem_sort_key_separates(a: WarpOp, b: WarpOp)
    requires spec_sort_key(a) == spec_sort_key(b)
    ensures variant_no(a) == variant_no(b), target(a) == target(b)
{
    assert(spec_sort_key(a).kind == spec_sort_key(b).kind);
    if variant_no(a) == 1 || variant_no(a) == 8 {
        let (ka, kb) = (att_key(a), att_key(b));
        assert(tag_buf(ka)[0] == tag_buf(kb)[0] && tag_buf(ka)[1] == tag_buf(kb)[1]);
        assert(ka.owner is Node <==> kb.owner is Node);
        assert(ka == kb) by { lemma_ids(); }
    } else { lemma_ids(); }
}
pub open spec fn att_key(op: WarpOp) -> AttachmentKey { match op { WarpOp::OpenPortal{ key, .. } => key, WarpOp::SetAttachment{ key, .. } => key, _ => arbitrary() } }
/// 32-byte id newtypes are equal iff their byte views are equal (array extensionality).
pub proof fn lemma_ids()
    ensures forall|x: NodeId, y: NodeId| x.0@ == y.0@ ==> x == y, forall|x: EdgeId, y: EdgeId| x.0@ == y.0@ ==> x == y, forall|x: WarpId, y: WarpId| x.0@ == y.0@ ==> x == y,
{
    assert forall|x: NodeId, y: NodeId| x.0@ == y.0@ implies x == y by { assert(x.0 =~= y.0); }
    assert forall|x: EdgeId, y: EdgeId| x.0@ == y.0@ implies x == y by { assert(x.0 =~= y.0); }
    assert forall|x: WarpId, y: WarpId| x.0@ == y.0@ implies x == y by { assert(x.0 =~= y.0); }
}
} // verus!
fn main() {}
