use vstd::prelude::*;
verus! {
global layout usize is size == 8;
pub enum CanonError { Incomplete, Trailing, Tag, Indefinite, NonCanonicalInt, NonCanonicalFloat, FloatShouldBeInt, MapKeyOrder, MapKeyDuplicate, Decode, Encode }
type Result<T> = core::result::Result<T, CanonError>;

// big-endian byte sequence of n in k bytes
pub open spec fn be(n: nat, k: nat) -> Seq<u8> decreases k {
    if k == 0 { Seq::empty() } else { be(n / 256, (k - 1) as nat).push((n % 256) as u8) }
}
pub open spec fn be_val(s: Seq<u8>) -> nat decreases s.len() {
    if s.len() == 0 { 0 } else { be_val(s.drop_last()) * 256 + s.last() as nat }
}
#[verifier::external_body] fn shim_u16_be(x: u16) -> (r: [u8; 2]) ensures r@ == be(x as nat, 2) { x.to_be_bytes() }
#[verifier::external_body] fn shim_u32_be(x: u32) -> (r: [u8; 4]) ensures r@ == be(x as nat, 4) { x.to_be_bytes() }
#[verifier::external_body] fn shim_u64_be(x: u64) -> (r: [u8; 8]) ensures r@ == be(x as nat, 8) { x.to_be_bytes() }

/// RFC 8949 §4.2.1 preferred (shortest) head for (major, n), n < 2^64 — written from the spec, not the code.
pub open spec fn info_of(n: nat) -> u8 { if n <= 23 { n as u8 } else if n <= 0xff { 24 } else if n <= 0xffff { 25 } else if n <= 0xffff_ffff { 26 } else { 27 } }
pub open spec fn arg_len(info: u8) -> nat { if info == 24 { 1 } else if info == 25 { 2 } else if info == 26 { 4 } else if info == 27 { 8 } else { 0 } }
pub open spec fn head(major: u8, n: nat) -> Seq<u8> {
    seq![((major as int * 32) + info_of(n) as int) as u8] + be(n, arg_len(info_of(n)))
}

proof fn lemma_head_byte(major: u8, info: u8)
    requires major <= 7, info <= 31
    ensures ((major << 5) | info) == ((major as int * 32) + info as int) as u8, (major as int * 32) + info as int <= 255
{
    assert(((major << 5) | info) == (major * 32 + info) as u8) by(bit_vector) requires major <= 7, info <= 31;
}
proof fn lemma_be1(n: nat) requires n <= 0xff ensures be(n, 1) == seq![n as u8]
{ assert(be(n, 1) == be(n / 256, 0).push((n % 256) as u8)); assert(be(n/256, 0) == Seq::<u8>::empty()); assert(Seq::<u8>::empty().push(n as u8) == seq![n as u8]); }

fn write_major(major: u8, n: u128, out: &mut Vec<u8>) 
    requires major <= 7, n <= u64::MAX,
    ensures final(out)@ == old(out)@ + head(major, n as nat),
{
    debug_assert!(major <= 7);
    proof { lemma_head_byte(major, info_of(n as nat)); if 24 <= n <= 0xff { lemma_be1(n as nat); } }
    match n {
        0..=23 => { 
            proof { assert(be(n as nat, 0) == Seq::<u8>::empty()); }
            out.push((major << 5) | n as u8) },
        24..=0xff => {
            out.push((major << 5) | 24);
            out.push(n as u8);
        }
        0x100..=0xffff => {
            out.push((major << 5) | 25);
            out.extend_from_slice(&shim_u16_be(n as u16));
        }
        0x1_0000..=0xffff_ffff => {
            out.push((major << 5) | 26);
            out.extend_from_slice(&shim_u32_be(n as u32));
        }
        _ => {
            out.push((major << 5) | 27);
            out.extend_from_slice(&shim_u64_be(n as u64));
        }
    }
    proof { assert(final(out)@ =~= old(out)@ + head(major, n as nat)); }
}

pub open spec fn pow256(k: nat) -> nat decreases k { if k == 0 { 1 } else { 256 * pow256((k - 1) as nat) } }

proof fn lemma_be_len(n: nat, k: nat) ensures be(n, k).len() == k decreases k { if k > 0 { lemma_be_len(n / 256, (k - 1) as nat); } }

proof fn lemma_be_val_be(n: nat, k: nat)
    requires n < pow256(k)
    ensures be_val(be(n, k)) == n
    decreases k
{
    if k > 0 {
        assert(n / 256 < pow256((k - 1) as nat)) by(nonlinear_arith) requires n < 256 * pow256((k - 1) as nat);
        lemma_be_val_be(n / 256, (k - 1) as nat);
        let s = be(n, k);
        assert(s.drop_last() == be(n / 256, (k - 1) as nat));
        assert(s.last() == (n % 256) as u8);
    }
}
proof fn lemma_be_be_val(s: Seq<u8>)
    ensures be(be_val(s), s.len()) == s, be_val(s) < pow256(s.len())
    decreases s.len()
{
    if s.len() > 0 {
        lemma_be_be_val(s.drop_last());
        let v = be_val(s);
        assert(v / 256 == be_val(s.drop_last()) && v % 256 == s.last() as nat) by(nonlinear_arith) requires v == be_val(s.drop_last()) * 256 + s.last() as nat, (s.last() as nat) <= 255;
        assert(be(v, s.len()) == be(v / 256, (s.len() - 1) as nat).push((v % 256) as u8));
        assert(s.drop_last().push(s.last()) == s);
        assert(v < 256 * pow256((s.len() - 1) as nat)) by(nonlinear_arith) requires v == be_val(s.drop_last()) * 256 + s.last() as nat, (s.last() as nat) <= 255, be_val(s.drop_last()) < pow256((s.len() - 1) as nat);
    } else { assert(be(0, 0) == Seq::<u8>::empty()); assert(s == Seq::<u8>::empty()); }
}

    fn need(bytes: &[u8], idx: usize, n: usize) -> (r: Result<()>)
        requires idx <= bytes.len(),
        ensures r is Ok <==> idx + n <= bytes.len(),
    {
        if bytes.len().saturating_sub(idx) < n {
            Err(CanonError::Incomplete)
        } else {
            Ok(())
        }
    }

    fn read_uint(bytes: &[u8], idx: &mut usize, nbytes: usize) -> (r: Result<u64>)
        requires nbytes <= 8, *old(idx) <= bytes.len(),
        ensures
            r is Ok <==> *old(idx) + nbytes <= bytes.len(),
            r is Ok ==> *final(idx) == *old(idx) + nbytes && r->Ok_0 as nat == be_val(bytes@.subrange(*old(idx) as int, *old(idx) + nbytes)),
            r is Err ==> *final(idx) == *old(idx),
    {
        need(bytes, *idx, nbytes)?;
        let mut val = 0u64;
        let ghost start = *idx;
        for k in 0..nbytes 
            invariant
                nbytes <= 8, start + nbytes <= bytes.len(), *idx == start + k,
                val as nat == be_val(bytes@.subrange(start as int, start + k)),
                (val as nat) < pow256(k as nat),
        {
            proof {
                let s0 = bytes@.subrange(start as int, start + k); let s1 = bytes@.subrange(start as int, start + k + 1);
                assert(s1.drop_last() == s0); assert(s1.last() == bytes@[start + k]);
                lemma_pow_bound(k as nat);
                let b = bytes@[start + k];
                assert(((val << 8) | (b as u64)) as nat == val as nat * 256 + b as nat) by(bit_vector) requires val < 0x0100_0000_0000_0000u64;
                assert((val as nat) * 256 + (b as nat) < pow256((k + 1) as nat)) by(nonlinear_arith) requires (val as nat) < pow256(k as nat), (b as nat) <= 255, pow256((k + 1) as nat) == 256 * pow256(k as nat);
            }
            val = (val << 8) | u64::from(bytes[*idx]);
            *idx += 1;
        }
        Ok(val)
    }
proof fn lemma_pow_bound(k: nat) requires k < 8 ensures pow256(k) <= 0x0100_0000_0000_0000 decreases k
{ if k > 0 { lemma_pow_bound((k-1) as nat); } 
  assert(pow256(0) == 1); assert(pow256(1) == 256); assert(pow256(2) == 65536); assert(pow256(3) == 16777216); assert(pow256(4) == 4294967296); 
  assert(pow256(5) == 1099511627776); assert(pow256(6) == 281474976710656); assert(pow256(7) == 72057594037927936); }

    fn read_len(bytes: &[u8], idx: &mut usize, info: u8) -> (r: Result<u64>)
        requires info <= 31, *old(idx) <= bytes.len(),
        ensures
            // accepted => the (info, argument bytes) pair is the unique shortest head of the value
            r is Ok ==> info == info_of(r->Ok_0 as nat)
                     && *final(idx) == *old(idx) + arg_len(info)
                     && *final(idx) <= bytes.len()
                     && bytes@.subrange(*old(idx) as int, *final(idx) as int) == be(r->Ok_0 as nat, arg_len(info)),
            // complete: every shortest head present in the input is accepted
            forall|n: nat| n <= u64::MAX && info == info_of(n) && *old(idx) + arg_len(info) <= bytes.len()
                 && bytes@.subrange(*old(idx) as int, *old(idx) + arg_len(info)) == be(n, arg_len(info)) ==> r == Ok::<u64, CanonError>(n as u64),
    {
        let ghost i0 = *idx;
        let val = match info {
            0..=23 => u64::from(info),
            24 => read_uint(bytes, idx, 1)?,
            25 => read_uint(bytes, idx, 2)?,
            26 => read_uint(bytes, idx, 4)?,
            27 => read_uint(bytes, idx, 8)?,
            31 => return Err(CanonError::Indefinite),
            _ => return Err(CanonError::Decode),
        };
        proof {
            let s = bytes@.subrange(i0 as int, i0 + arg_len(info));
            lemma_be_be_val(s);
            if info <= 23 { assert(s =~= Seq::<u8>::empty()); assert(be(val as nat, 0) == Seq::<u8>::empty()); }
            assert(pow256(1) == 256 && pow256(2) == 65536 && pow256(4) == 4294967296 && pow256(8) == 18446744073709551616) by { lemma_pows(); }
            assert forall|n: nat| n <= u64::MAX && info == info_of(n) && s == be(n, arg_len(info)) implies n == val as nat by {
                if info <= 23 { } else { lemma_be_val_be(n, arg_len(info)); }
            }
        }
        // Reject non-canonical (over-wide) length encodings
        match info {
            24 if val <= 23 => return Err(CanonError::NonCanonicalInt),
            25 if val <= 0xff => return Err(CanonError::NonCanonicalInt),
            26 if val <= 0xffff => return Err(CanonError::NonCanonicalInt),
            27 if val <= 0xffff_ffff => return Err(CanonError::NonCanonicalInt),
            _ => {}
        }
        Ok(val)
    }
proof fn lemma_pows() ensures pow256(1) == 256, pow256(2) == 65536, pow256(4) == 4294967296, pow256(8) == 18446744073709551616
{ assert(pow256(0) == 1); assert(pow256(1) == 256); assert(pow256(2) == 65536); assert(pow256(3) == 16777216); assert(pow256(4) == 4294967296);
  assert(pow256(5) == 1099511627776); assert(pow256(6) == 281474976710656); assert(pow256(7) == 72057594037927936); assert(pow256(8) == 18446744073709551616); }
} fn main() {}
