use vstd::prelude::*;
verus! {
pub enum CanonError { Incomplete, Trailing, Tag, Indefinite, NonCanonicalInt, NonCanonicalFloat, FloatShouldBeInt, MapKeyOrder, MapKeyDuplicate, Decode, Encode }
type Result<T> = core::result::Result<T, CanonError>;
#[verifier::external_body] fn shim_u16_be(x: u16) -> (r: [u8; 2]) { x.to_be_bytes() }
#[verifier::external_body] fn shim_u32_be(x: u32) -> (r: [u8; 4]) { x.to_be_bytes() }
#[verifier::external_body] fn shim_u64_be(x: u64) -> (r: [u8; 8]) { x.to_be_bytes() }

fn write_major(major: u8, n: u128, out: &mut Vec<u8>) 
    requires major <= 7
{
    debug_assert!(major <= 7);
    match n {
        0..=23 => out.push((major << 5) | n as u8),
        24..=0xff => {
            out.push((major << 5) | 24);
            out.push(n as u8);
        }
        0x100..=0xffff => {
            out.push((major << 5) | 25);
            out.extend_from_slice(&shim_u16_be(n as u16));
        }
        0x1_0000..=0xffff_ffff => {
            out.push((major << 5) | 26);
            out.extend_from_slice(&shim_u32_be(n as u32));
        }
        _ => {
            out.push((major << 5) | 27);
            out.extend_from_slice(&shim_u64_be(n as u64));
        }
    }
}

    fn need(bytes: &[u8], idx: usize, n: usize) -> Result<()> {
        if bytes.len().saturating_sub(idx) < n {
            Err(CanonError::Incomplete)
        } else {
            Ok(())
        }
    }

    fn read_uint(bytes: &[u8], idx: &mut usize, nbytes: usize) -> Result<u64> {
        need(bytes, *idx, nbytes)?;
        let mut val = 0u64;
        for _ in 0..nbytes {
            val = (val << 8) | u64::from(bytes[*idx]);
            *idx += 1;
        }
        Ok(val)
    }

    fn read_len(bytes: &[u8], idx: &mut usize, info: u8) -> Result<u64> {
        let val = match info {
            0..=23 => u64::from(info),
            24 => read_uint(bytes, idx, 1)?,
            25 => read_uint(bytes, idx, 2)?,
            26 => read_uint(bytes, idx, 4)?,
            27 => read_uint(bytes, idx, 8)?,
            31 => return Err(CanonError::Indefinite),
            _ => return Err(CanonError::Decode),
        };
        // Reject non-canonical (over-wide) length encodings
        match info {
            24 if val <= 23 => return Err(CanonError::NonCanonicalInt),
            25 if val <= 0xff => return Err(CanonError::NonCanonicalInt),
            26 if val <= 0xffff => return Err(CanonError::NonCanonicalInt),
            27 if val <= 0xffff_ffff => return Err(CanonError::NonCanonicalInt),
            _ => {}
        }
        Ok(val)
    }
} fn main() {}
