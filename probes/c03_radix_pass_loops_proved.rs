use vstd::prelude::*;
use vstd::std_specs::iter::IteratorSpec;
verus! {
global layout usize is size == 8;

#[derive(Clone, Copy, Debug, Default, PartialEq, Eq)]
struct RewriteThin {
    scope_be32: [u8; 32], // full 256-bit scope, byte-lexicographic order
    rule_id: u32,         // compact, unique, stable per rule
    nonce: u32,           // insertion-order tie-break
    handle: usize,        // index into fat payload vec (usize to avoid truncation casts)
}
struct PendingTx {
    thin: Vec<RewriteThin>,
    scratch: Vec<RewriteThin>,
    counts16: Vec<u32>,
}

pub uninterp spec fn digit(r: RewriteThin, p: int) -> int;
#[verifier::external_body]
fn bucket16(r: &RewriteThin, pass: usize) -> (b: u16)
    requires pass < 20
    ensures b as int == digit(*r, pass as int)
{ unimplemented!() }
pub assume_specification<T: Clone>[<[T]>::fill](s: &mut [T], v: T)
    ensures final(s)@.len() == old(s)@.len(), forall|i: int| 0 <= i < old(s)@.len() ==> final(s)@[i] == v;

// ---- counting (from r1.rs) ----
pub open spec fn cnt_lt(d: Seq<int>, n: int, x: int) -> int decreases n {
    if n <= 0 { 0 } else { cnt_lt(d, n - 1, x) + if d[n - 1] < x { 1int } else { 0int } }
}
pub open spec fn cnt_eq(d: Seq<int>, n: int, x: int) -> int decreases n {
    if n <= 0 { 0 } else { cnt_eq(d, n - 1, x) + if d[n - 1] == x { 1int } else { 0int } }
}
pub open spec fn pos(d: Seq<int>, i: int) -> int { cnt_lt(d, d.len() as int, d[i]) + cnt_eq(d, i, d[i]) }
pub proof fn lemma_cnt_bounds(d: Seq<int>, n: int, x: int)
    requires 0 <= n <= d.len()
    ensures 0 <= cnt_lt(d, n, x), 0 <= cnt_eq(d, n, x), cnt_lt(d, n, x) + cnt_eq(d, n, x) <= n
    decreases n
{ if n > 0 { lemma_cnt_bounds(d, n - 1, x); } }
pub proof fn lemma_cnt_eq_mono(d: Seq<int>, a: int, b: int, x: int)
    requires 0 <= a <= b <= d.len()
    ensures cnt_eq(d, a, x) <= cnt_eq(d, b, x)
    decreases b - a
{ if a < b { lemma_cnt_eq_mono(d, a, b - 1, x); } }
pub proof fn lemma_pos_in_range(d: Seq<int>, i: int)
    requires 0 <= i < d.len()
    ensures 0 <= pos(d, i) < d.len()
{
    let n = d.len() as int; let x = d[i];
    lemma_cnt_bounds(d, n, x); lemma_cnt_bounds(d, i, x);
    lemma_cnt_eq_mono(d, i + 1, n, x);
    assert(cnt_eq(d, i + 1, x) == cnt_eq(d, i, x) + 1);
}
// cnt_lt(d, n, x+1) == cnt_lt(d,n,x) + cnt_eq(d,n,x)
pub proof fn lemma_cnt_lt_succ(d: Seq<int>, n: int, x: int)
    requires 0 <= n <= d.len()
    ensures cnt_lt(d, n, x + 1) == cnt_lt(d, n, x) + cnt_eq(d, n, x)
    decreases n
{ if n > 0 { lemma_cnt_lt_succ(d, n - 1, x); } }

pub open spec fn dseq(s: Seq<RewriteThin>, p: int) -> Seq<int> { Seq::new(s.len(), |j: int| digit(s[j], p)) }

/// One counting pass: histogram + prefix sums over `counts`, for the digit sequence of `src`.
fn pass_count_and_prefix(src: &[RewriteThin], counts: &mut Vec<u32>, pass: usize)
    requires pass < 20, old(counts)@.len() == 65536, src@.len() <= u32::MAX,
        forall|j: int| 0 <= j < src@.len() ==> 0 <= #[trigger] digit(src@[j], pass as int) < 65536,
    ensures final(counts)@.len() == 65536,
        forall|x: int| 0 <= x < 65536 ==> (#[trigger] final(counts)@[x]) as int == cnt_lt(dseq(src@, pass as int), src@.len() as int, x),
{
    let ghost d = dseq(src@, pass as int);
    let ghost n = src@.len() as int;
    counts.fill(0);

    // Count
    for r in it: src 
        invariant
            pass < 20, counts@.len() == 65536, n == src@.len(), n <= u32::MAX, d == dseq(src@, pass as int),
            it.snapshot@.remaining().unref() == src@,
            it.snapshot@.remaining() == it.history@ + it.iter.remaining(),
            forall|j: int| 0 <= j < src@.len() ==> 0 <= #[trigger] digit(src@[j], pass as int) < 65536,
            forall|x: int| 0 <= x < 65536 ==> (#[trigger] counts@[x]) as int == cnt_eq(d, it.history@.len() as int, x),
    {
        let ghost k = it.history@.len() as int;
        proof { assert(src@[k] == *r); assert(d[k] == digit(*r, pass as int)); lemma_cnt_bounds(d, k, d[k]); }
        let b = bucket16(r, pass) as usize;
        counts[b] = counts[b].wrapping_add(1);
        proof {
            assert forall|x: int| 0 <= x < 65536 implies (#[trigger] counts@[x]) as int == cnt_eq(d, k + 1, x) by { }
        }
    }

    // Prefix sums
    let ghost hist = counts@;
    proof {
        assert forall|x: int| 0 <= x <= 65536 implies sum_to(hist, x) == cnt_lt(d, n, x) by { lemma_sum_hist(hist, d, n, x); }
        lemma_cnt_bounds(d, n, 65536);
    }
    let mut sum: u32 = 0;
    for c in it: counts.iter_mut() 
        invariant
            n <= u32::MAX, hist.len() == 65536,
            forall|x: int| 0 <= x <= 65536 ==> #[trigger] sum_to(hist, x) == cnt_lt(d, n, x),
            0 <= cnt_lt(d, n, 65536) <= n,
            it.snapshot@.remaining().len() == 65536,
            it.snapshot@.remaining() == it.history@ + it.iter.remaining(),
            forall|i: int| 0 <= i < 65536 ==> *(#[trigger] it.snapshot@.remaining()[i]) == hist[i],
            forall|i: int| 0 <= i < 65536 ==> *final(#[trigger] it.snapshot@.remaining()[i]) == final(counts)@[i],
            final(counts)@.len() == 65536,
            sum as int == sum_to(hist, it.history@.len() as int),
            forall|i: int| 0 <= i < it.history@.len() ==> *final(#[trigger] it.history@[i]) as int == sum_to(hist, i),
    {
        proof { 
            let k = it.history@.len() as int;
            assert(*c == hist[k]) by { assert(it.snapshot@.remaining()[k] == c); }
            lemma_sum_mono(hist, k + 1, 65536);
            assert(sum_to(hist, k + 1) == sum_to(hist, k) + hist[k] as int);
        }
        let t = *c;
        *c = sum;
        sum = sum.wrapping_add(t);
    }
}

pub open spec fn sum_to(s: Seq<u32>, k: int) -> int decreases k {
    if k <= 0 { 0 } else { sum_to(s, k - 1) + s[k - 1] as int }
}
proof fn lemma_sum_mono(s: Seq<u32>, a: int, b: int)
    requires 0 <= a <= b <= s.len()
    ensures sum_to(s, a) <= sum_to(s, b)
    decreases b - a
{ if a < b { lemma_sum_mono(s, a, b - 1); } }
proof fn lemma_cnt_lt_zero(d: Seq<int>, n: int)
    requires 0 <= n <= d.len(), forall|j: int| 0 <= j < d.len() ==> 0 <= #[trigger] d[j]
    ensures cnt_lt(d, n, 0) == 0
    decreases n
{ if n > 0 { lemma_cnt_lt_zero(d, n - 1); } }
proof fn lemma_sum_hist(hist: Seq<u32>, d: Seq<int>, n: int, x: int)
    requires 0 <= x <= 65536, hist.len() == 65536, n == d.len(),
        forall|j: int| 0 <= j < d.len() ==> 0 <= #[trigger] d[j],
        forall|y: int| 0 <= y < 65536 ==> (#[trigger] hist[y]) as int == cnt_eq(d, n, y),
    ensures sum_to(hist, x) == cnt_lt(d, n, x)
    decreases x
{
    if x == 0 { lemma_cnt_lt_zero(d, n); } else { lemma_sum_hist(hist, d, n, x - 1); lemma_cnt_lt_succ(d, n, x - 1); }
}

pub proof fn lemma_cnt_lt_mono_x(d: Seq<int>, n: int, x: int, y: int)
    requires 0 <= n <= d.len(), x < y
    ensures cnt_lt(d, n, x) + cnt_eq(d, n, x) <= cnt_lt(d, n, y)
    decreases n
{ if n > 0 { lemma_cnt_lt_mono_x(d, n - 1, x, y); } }
pub proof fn lemma_pos_monotone(d: Seq<int>, i: int, j: int)
    requires 0 <= i < d.len(), 0 <= j < d.len(), d[i] < d[j] || (d[i] == d[j] && i < j)
    ensures pos(d, i) < pos(d, j)
{
    let n = d.len() as int;
    if d[i] < d[j] {
        lemma_cnt_lt_mono_x(d, n, d[i], d[j]);
        lemma_cnt_eq_mono(d, i + 1, n, d[i]);
        assert(cnt_eq(d, i + 1, d[i]) == cnt_eq(d, i, d[i]) + 1);
        lemma_cnt_bounds(d, j, d[j]);
    } else {
        lemma_cnt_eq_mono(d, i + 1, j, d[i]);
        assert(cnt_eq(d, i + 1, d[i]) == cnt_eq(d, i, d[i]) + 1);
    }
}
pub proof fn lemma_pos_injective(d: Seq<int>, i: int, j: int)
    requires 0 <= i < d.len(), 0 <= j < d.len(), i != j
    ensures pos(d, i) != pos(d, j)
{
    if d[i] < d[j] || (d[i] == d[j] && i < j) { lemma_pos_monotone(d, i, j); } else { lemma_pos_monotone(d, j, i); }
}

/// Stable scatter
fn pass_scatter(src: &[RewriteThin], dst: &mut [RewriteThin], counts: &mut Vec<u32>, pass: usize)
    requires pass < 20, old(counts)@.len() == 65536, src@.len() <= u32::MAX, old(dst)@.len() == src@.len(),
        forall|j: int| 0 <= j < src@.len() ==> 0 <= #[trigger] digit(src@[j], pass as int) < 65536,
        forall|x: int| 0 <= x < 65536 ==> (#[trigger] old(counts)@[x]) as int == cnt_lt(dseq(src@, pass as int), src@.len() as int, x),
    ensures final(counts)@.len() == 65536, final(dst)@.len() == src@.len(),
        forall|i: int| 0 <= i < src@.len() ==> final(dst)@[pos(dseq(src@, pass as int), i)] == #[trigger] src@[i],
{
    let ghost d = dseq(src@, pass as int);
    let ghost n = src@.len() as int;
    for r in it: src 
        invariant
            pass < 20, counts@.len() == 65536, n == src@.len(), n <= u32::MAX, d == dseq(src@, pass as int), dst@.len() == n,
            it.snapshot@.remaining().unref() == src@,
            it.snapshot@.remaining() == it.history@ + it.iter.remaining(),
            forall|j: int| 0 <= j < src@.len() ==> 0 <= #[trigger] digit(src@[j], pass as int) < 65536,
            forall|x: int| 0 <= x < 65536 ==> (#[trigger] counts@[x]) as int == cnt_lt(d, n, x) + cnt_eq(d, it.history@.len() as int, x),
            forall|j: int| 0 <= j < it.history@.len() ==> dst@[pos(d, j)] == #[trigger] src@[j],
    {
        let ghost k = it.history@.len() as int;
        proof { 
            assert(src@[k] == *r); assert(d[k] == digit(*r, pass as int)); 
            lemma_pos_in_range(d, k);
            assert forall|j: int| 0 <= j < k implies #[trigger] pos(d, j) != pos(d, k) by { lemma_pos_injective(d, j, k); }
            assert forall|j: int| 0 <= j < k implies 0 <= #[trigger] pos(d, j) < n by { lemma_pos_in_range(d, j); }
        }
        let b = bucket16(r, pass) as usize;
        let idx_u32 = counts[b];
        counts[b] = idx_u32.wrapping_add(1);
        let idx = idx_u32 as usize; // widening u32→usize (safe on 32/64-bit)
        dst[idx] = *r;
        proof {
            assert(idx as int == pos(d, k));
            assert forall|x: int| 0 <= x < 65536 implies (#[trigger] counts@[x]) as int == cnt_lt(d, n, x) + cnt_eq(d, k + 1, x) by { lemma_cnt_bounds(d, n, x); lemma_cnt_bounds(d, k + 1, x); lemma_cnt_eq_mono(d, k + 1, n, x); }
        }
    }
}
} fn main() {}
