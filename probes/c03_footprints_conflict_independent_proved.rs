use vstd::prelude::*;
use vstd::std_specs::iter::IteratorSpec;
use vstd::std_specs::btree::*;
use vstd::std_specs::cmp::*;
use vstd::laws_cmp::*;
use vstd::laws_eq::*;
use std::collections::BTreeSet;
use core::cmp::Ordering;
verus! {
broadcast use {vstd::std_specs::btree::group_btree_axioms, vstd::laws_cmp::lemma_ref_obeys_cmp_spec};
pub type Hash = [u8; 32];
/// Strongly typed identifier for a node in the skeleton graph.
///
/// `NodeId` is an opaque 32-byte identifier (`Hash`). Many nodes in Echo use
/// stable, label-derived ids via [`make_node_id`] (`blake3("node:" || label)`),
/// but this is a convention, not a global constraint.
///
/// Other subsystems may construct content-addressed `NodeId`s derived from
/// different domain-separated hashes (for example, inbox/ledger event nodes
/// keyed by `intent_id = blake3("intent:" || intent_bytes)`).
///
/// Tooling must not assume that every `NodeId` corresponds to a human-readable
/// label, or that ids are reversible back into strings.
#[repr(transparent)]
#[derive(Clone, Copy, PartialEq, Eq, PartialOrd, Ord, Hash, Debug)]
pub struct NodeId(pub Hash);
/// Identifier for a directed edge within the graph.
#[repr(transparent)]
#[derive(Clone, Copy, PartialEq, Eq, PartialOrd, Ord, Hash, Debug)]
pub struct EdgeId(pub Hash);
/// Strongly typed identifier for a WARP instance.
///
/// A `WarpId` namespaces node/edge ids for Stage B1 "flattened indirection"
/// descended attachments: nodes and edges live in instance-scoped graphs
/// addressed by `(warp_id, local_id)`.
#[repr(transparent)]
#[derive(Clone, Copy, PartialEq, Eq, PartialOrd, Ord, Hash, Debug)]
pub struct WarpId(pub Hash);
/// Instance-scoped identifier for a node.
#[derive(Clone, Copy, PartialEq, Eq, PartialOrd, Ord, Hash, Debug)]
pub struct NodeKey {
    /// Warp instance that namespaces the local node id.
    pub warp_id: WarpId,
    /// Local node identifier within the instance.
    pub local_id: NodeId,
}
/// Instance-scoped identifier for an edge.
#[derive(Clone, Copy, PartialEq, Eq, PartialOrd, Ord, Hash, Debug)]
pub struct EdgeKey {
    /// Warp instance that namespaces the local edge id.
    pub warp_id: WarpId,
    /// Local edge identifier within the instance.
    pub local_id: EdgeId,
}
/// Attachment plane selector.
///
/// In Paper I notation, vertex attachments are `α` and edge attachments are `β`.
#[derive(Debug, Clone, Copy, PartialEq, Eq, PartialOrd, Ord, Hash)]
pub enum AttachmentPlane {
    /// Vertex/node attachment plane (`α`).
    Alpha,
    /// Edge attachment plane (`β`).
    Beta,
}
/// Owner identity for an attachment slot.
#[derive(Debug, Clone, Copy, PartialEq, Eq, PartialOrd, Ord, Hash)]
pub enum AttachmentOwner {
    /// Attachment owned by a node.
    Node(NodeKey),
    /// Attachment owned by an edge.
    Edge(EdgeKey),
}
/// First-class identity for an attachment slot.
///
/// This is the key used for Stage B1 “descent chain” footprinting and slicing:
/// changes to an attachment slot (especially `Descend`) must invalidate matches
/// inside descendant instances deterministically.
#[derive(Debug, Clone, Copy, PartialEq, Eq, PartialOrd, Ord, Hash)]
pub struct AttachmentKey {
    /// Owner of the slot.
    pub owner: AttachmentOwner,
    /// Attachment plane selector.
    pub plane: AttachmentPlane,
}
pub type PortKey = u64; pub type WarpScopedPortKey = (WarpId, PortKey);
/// Ordered set of warp-scoped node identifiers.
///
/// Each entry is a `NodeKey` containing both `warp_id` and `local_id`, ensuring
/// nodes in different warps don't cause false conflicts during scheduling.
#[derive(Debug, Clone, PartialEq, Eq, Default)]
pub struct NodeSet(BTreeSet<NodeKey>);
/// Ordered set of warp-scoped edge identifiers.
///
/// Each entry is an `EdgeKey` containing both `warp_id` and `local_id`, ensuring
/// edges in different warps don't cause false conflicts during scheduling.
#[derive(Debug, Clone, PartialEq, Eq, Default)]
pub struct EdgeSet(BTreeSet<EdgeKey>);
/// Ordered set of warp-scoped boundary ports.
///
/// Each entry is a `(WarpId, PortKey)` tuple ensuring ports in different warps
/// don't cause false conflicts during scheduling.
#[derive(Debug, Clone, PartialEq, Eq, Default)]
pub struct PortSet(BTreeSet<WarpScopedPortKey>);
/// Ordered set of attachment slots.
///
/// [`AttachmentKey`] is already warp-scoped (contains [`NodeKey`] or [`EdgeKey`]).
#[derive(Debug, Clone, PartialEq, Eq, Default)]
pub struct AttachmentSet(BTreeSet<AttachmentKey>);
/// Footprint capturing the read/write sets and factor mask of a rewrite.
///
/// All resource sets are warp-scoped to prevent false conflicts between
/// rewrites in different warps that happen to touch resources with the
/// same local identifier.
#[derive(Debug, Clone, PartialEq, Eq, Default)]
pub struct Footprint {
    /// Nodes read by the rewrite (warp-scoped).
    pub n_read: NodeSet,
    /// Nodes written/created/deleted by the rewrite (warp-scoped).
    pub n_write: NodeSet,
    /// Edges read by the rewrite (warp-scoped).
    pub e_read: EdgeSet,
    /// Edges written/created/deleted by the rewrite (warp-scoped).
    pub e_write: EdgeSet,
    /// Attachment slots read by the rewrite.
    pub a_read: AttachmentSet,
    /// Attachment slots written by the rewrite.
    pub a_write: AttachmentSet,
    /// Boundary input ports touched (warp-scoped).
    pub b_in: PortSet,
    /// Boundary output ports touched (warp-scoped).
    pub b_out: PortSet,
    /// Coarse partition mask; used as an O(1) prefilter.
    pub factor_mask: u64,
}
pub proof fn lemma_link<T: Ord>(x: T, y: T) requires obeys_cmp::<T>()
    ensures x.partial_cmp_spec(&y) == Some(x.cmp_spec(&y))
{ reveal(obeys_cmp_ord); }
pub proof fn lemma_equal<T: Ord>(x: T, y: T) requires obeys_cmp::<T>(), x.cmp_spec(&y) == Ordering::Equal
    ensures x.eq_spec(&y)
{ reveal(obeys_cmp_ord); reveal(obeys_cmp_partial_ord); reveal(obeys_partial_cmp_spec_properties); lemma_link(x, y); }
pub proof fn lemma_trans<T: Ord>(x: T, y: T, z: T) requires obeys_cmp::<T>(), x.cmp_spec(&y) == Ordering::Less, y.cmp_spec(&z) == Ordering::Less
    ensures x.cmp_spec(&z) == Ordering::Less
{ reveal(obeys_cmp_ord); reveal(obeys_cmp_partial_ord); reveal(obeys_partial_cmp_spec_properties); lemma_link(x, y); lemma_link(y, z); lemma_link(x, z); }
pub proof fn lemma_greater<T: Ord>(x: T, y: T) requires obeys_cmp::<T>(), x.cmp_spec(&y) == Ordering::Greater
    ensures y.cmp_spec(&x) == Ordering::Less
{ reveal(obeys_cmp_ord); reveal(obeys_cmp_partial_ord); reveal(obeys_partial_cmp_spec_properties); lemma_link(x, y); lemma_link(y, x); }
pub proof fn lemma_less_ne<T: Ord>(x: T, y: T) requires obeys_cmp::<T>(), x.cmp_spec(&y) == Ordering::Less
    ensures x != y
{ reveal(obeys_cmp_ord); reveal(obeys_cmp_partial_ord); reveal(obeys_partial_cmp_spec_properties); lemma_link(x, y); lemma_link(x, x); }
pub proof fn lemma_eq_is_eq<T: Ord>(x: T, y: T) requires obeys_cmp::<T>(), obeys_concrete_eq::<T>(), x.eq_spec(&y)
    ensures x == y
{ reveal(obeys_concrete_eq); }

pub open spec fn cur<T>(r: Seq<&T>, i: int) -> Option<&T> { if 0 <= i < r.len() { Some(r[i]) } else { None } }
pub open spec fn rest<T>(r: Seq<&T>, i: int) -> Seq<&T> { if 0 <= i < r.len() { r.skip(i + 1) } else { Seq::empty() } }
pub open spec fn incr<T: Ord>(r: Seq<&T>) -> bool { forall|i: int, j: int| 0 <= i < j < r.len() ==> #[trigger] <T as OrdSpec>::cmp_spec(r[i], r[j]) == Ordering::Less }

proof fn lemma_incr<T: Ord>(r: Seq<&T>)
    requires obeys_cmp::<T>(), increasing_seq(r)
    ensures incr(r)
{
    assert(obeys_cmp::<&T>());
    assert(forall|i: int, j: int| 0 <= i < j < r.len() ==> #[trigger] <&T as OrdSpec>::cmp_spec(&r[i], &r[j]) == Ordering::Less);
    assert forall|i: int, j: int| 0 <= i < j < r.len() implies #[trigger] <T as OrdSpec>::cmp_spec(r[i], r[j]) == Ordering::Less by {
        assert(<&T as OrdSpec>::cmp_spec(&r[i], &r[j]) == Ordering::Less);
    }
}

fn intersects_btree<T: Ord>(a: &BTreeSet<T>, b: &BTreeSet<T>) -> (res: bool)
    requires obeys_cmp::<T>(), obeys_concrete_eq::<T>(),
    ensures res == !a@.disjoint(b@),
{
    let mut it_a = a.iter();
    let mut it_b = b.iter();
    let ghost ra = it_a.remaining();
    let ghost rb = it_b.remaining();
    proof { lemma_incr(ra); lemma_incr(rb); }
    let mut va = it_a.next();
    let mut vb = it_b.next();
    let ghost mut ia: int = 0;
    let ghost mut ib: int = 0;
    while let (Some(x), Some(y)) = (va, vb) 
        invariant
            obeys_cmp::<T>(), obeys_concrete_eq::<T>(),
            it_a.obeys_prophetic_iter_laws(), it_b.obeys_prophetic_iter_laws(),
            incr(ra), incr(rb),
            ra.unref().to_set() == a@, rb.unref().to_set() == b@,
            ra.len() == a@.len(), rb.len() == b@.len(),
            0 <= ia <= ra.len(), 0 <= ib <= rb.len(),
            va == cur(ra, ia), vb == cur(rb, ib),
            it_a.remaining() == rest(ra, ia), it_b.remaining() == rest(rb, ib),
            forall|i: int| 0 <= i < ia ==> !b@.contains(*#[trigger] ra[i]),
            forall|j: int| 0 <= j < ib ==> !a@.contains(*#[trigger] rb[j]),
        ensures !(va is Some && vb is Some),
        decreases (a@.len() - ia) + (b@.len() - ib),
    {
        proof {
            reveal(obeys_cmp_ord); reveal(obeys_cmp_partial_ord);
            assert(<T as OrdSpec>::obeys_cmp_spec());
            assert(ra.unref()[ia] == *x); assert(a@.contains(*x));
            assert(rb.unref()[ib] == *y); assert(b@.contains(*y));
        }
        match x.cmp(y) {
            core::cmp::Ordering::Less => { 
                proof {
                    assert forall|k: int| 0 <= k < rb.len() implies *#[trigger] rb[k] != *x by {
                        if k < ib { } else if k == ib { lemma_less_ne(*x, *y); } else { 
                            assert(<T as OrdSpec>::cmp_spec(rb[ib], rb[k]) == Ordering::Less);
                            lemma_trans(*x, *y, *rb[k]); lemma_less_ne(*x, *rb[k]); }
                    }
                    assert(!b@.contains(*x)) by { if b@.contains(*x) { let k = choose|k: int| 0 <= k < rb.unref().len() && rb.unref()[k] == *x; assert(*rb[k] == *x); } }
                    assert(rest(ra, ia).len() > 0 ==> rest(ra, ia)[0] == ra[ia + 1]);
                    if ia + 1 < a@.len() { assert(rest(ra, ia + 1) =~= rest(ra, ia).skip(1)); }
                }
                va = it_a.next(); proof { ia = ia + 1; } 
            },
            core::cmp::Ordering::Greater => { 
                proof {
                    lemma_greater(*x, *y);
                    assert forall|k: int| 0 <= k < ra.len() implies *#[trigger] ra[k] != *y by {
                        if k < ia { } else if k == ia { lemma_less_ne(*y, *x); } else { 
                            assert(<T as OrdSpec>::cmp_spec(ra[ia], ra[k]) == Ordering::Less);
                            lemma_trans(*y, *x, *ra[k]); lemma_less_ne(*y, *ra[k]); }
                    }
                    assert(!a@.contains(*y)) by { if a@.contains(*y) { let k = choose|k: int| 0 <= k < ra.unref().len() && ra.unref()[k] == *y; assert(*ra[k] == *y); } }
                    assert(rest(rb, ib).len() > 0 ==> rest(rb, ib)[0] == rb[ib + 1]);
                    if ib + 1 < b@.len() { assert(rest(rb, ib + 1) =~= rest(rb, ib).skip(1)); }
                }
                vb = it_b.next(); proof { ib = ib + 1; } 
            },
            core::cmp::Ordering::Equal => { proof { lemma_equal(*x, *y); lemma_eq_is_eq(*x, *y); } return true },
        }
    }
    proof {
        assert forall|k: T| a@.contains(k) implies !b@.contains(k) by {
            let i = choose|i: int| 0 <= i < ra.unref().len() && ra.unref()[i] == k;
            if i < ia { assert(*ra[i] == k); } else {
                assert(ia < ra.len()); assert(va is Some); assert(!(va is Some && vb is Some)); assert(vb is None); assert(ib == rb.len());
                if b@.contains(k) { let j = choose|j: int| 0 <= j < rb.unref().len() && rb.unref()[j] == k; assert(*rb[j] == k); assert(j < ib); }
            }
        }
    }
    false
}
impl NodeSet {
    pub closed spec fn view(&self) -> Set<NodeKey> { self.0@ }
    /// Returns true if any element is shared with `other`.
    pub fn intersects(&self, other: &Self) -> (r: bool)
        requires obeys_cmp::<NodeKey>(), obeys_concrete_eq::<NodeKey>(),
        ensures r == !self@.disjoint(other@),
    {
        intersects_btree(&self.0, &other.0)
    }
}
impl EdgeSet {
    pub closed spec fn view(&self) -> Set<EdgeKey> { self.0@ }
    /// Returns true if any element is shared with `other`.
    pub fn intersects(&self, other: &Self) -> (r: bool)
        requires obeys_cmp::<EdgeKey>(), obeys_concrete_eq::<EdgeKey>(),
        ensures r == !self@.disjoint(other@),
    {
        intersects_btree(&self.0, &other.0)
    }
}
impl PortSet {
    pub closed spec fn view(&self) -> Set<WarpScopedPortKey> { self.0@ }
    /// Returns true if any element is shared with `other`.
    pub fn intersects(&self, other: &Self) -> (r: bool)
        requires obeys_cmp::<WarpScopedPortKey>(), obeys_concrete_eq::<WarpScopedPortKey>(),
        ensures r == !self@.disjoint(other@),
    {
        intersects_btree(&self.0, &other.0)
    }
}
impl AttachmentSet {
    pub closed spec fn view(&self) -> Set<AttachmentKey> { self.0@ }
    /// Returns true if any element is shared with `other`.
    pub fn intersects(&self, other: &Self) -> (r: bool)
        requires obeys_cmp::<AttachmentKey>(), obeys_concrete_eq::<AttachmentKey>(),
        ensures r == !self@.disjoint(other@),
    {
        intersects_btree(&self.0, &other.0)
    }
}

pub struct Fp { pub nr: Set<NodeKey>, pub nw: Set<NodeKey>, pub er: Set<EdgeKey>, pub ew: Set<EdgeKey>,
                pub ar: Set<AttachmentKey>, pub aw: Set<AttachmentKey>, pub bi: Set<WarpScopedPortKey>, pub bo: Set<WarpScopedPortKey>, pub mask: u64 }
impl Footprint { pub closed spec fn view(&self) -> Fp { Fp { nr: self.n_read@, nw: self.n_write@, er: self.e_read@, ew: self.e_write@,
    ar: self.a_read@, aw: self.a_write@, bi: self.b_in@, bo: self.b_out@, mask: self.factor_mask } } }
/// C03 statement: a write overlapping another's read or write of the same node, edge or attachment, or any shared boundary port.
pub open spec fn conflict(a: Fp, b: Fp) -> bool {
    ||| !a.nw.disjoint(b.nw) ||| !a.nw.disjoint(b.nr) ||| !b.nw.disjoint(a.nr)
    ||| !a.ew.disjoint(b.ew) ||| !a.ew.disjoint(b.er) ||| !b.ew.disjoint(a.er)
    ||| !a.aw.disjoint(b.aw) ||| !a.aw.disjoint(b.ar) ||| !b.aw.disjoint(a.ar)
    ||| !a.bi.disjoint(b.bi) ||| !a.bi.disjoint(b.bo) ||| !a.bo.disjoint(b.bi) ||| !a.bo.disjoint(b.bo)
}
pub proof fn lemma_conflict_symmetric(a: Fp, b: Fp) ensures conflict(a, b) == conflict(b, a) {
    assert forall|s: Set<NodeKey>, t: Set<NodeKey>| s.disjoint(t) == t.disjoint(s) by {}
    assert forall|s: Set<EdgeKey>, t: Set<EdgeKey>| s.disjoint(t) == t.disjoint(s) by {}
    assert forall|s: Set<AttachmentKey>, t: Set<AttachmentKey>| s.disjoint(t) == t.disjoint(s) by {}
    assert forall|s: Set<WarpScopedPortKey>, t: Set<WarpScopedPortKey>| s.disjoint(t) == t.disjoint(s) by {}
}
pub(crate) fn footprints_conflict(
    a: &Footprint,
    b: &Footprint,
) -> (r: bool)
    requires obeys_cmp::<NodeKey>(), obeys_concrete_eq::<NodeKey>(), obeys_cmp::<EdgeKey>(), obeys_concrete_eq::<EdgeKey>(), obeys_cmp::<AttachmentKey>(), obeys_concrete_eq::<AttachmentKey>(), obeys_cmp::<WarpScopedPortKey>(), obeys_concrete_eq::<WarpScopedPortKey>(),
    ensures r == conflict(a@, b@),
{
    // IMPORTANT: do not use `Footprint::independent` here yet.
    //
    // This logic MUST remain consistent with the scheduler’s footprint conflict
    // predicate (`RadixScheduler::has_conflict` in `scheduler.rs`). If one
    // changes, the other must change too, or receipts will attribute blockers
    // differently than the scheduler rejects candidates.
    //
    // `Footprint::independent` includes a `factor_mask` fast-path that assumes
    // masks are correctly populated as a conservative superset. Many current
    // footprints in the engine spike use `factor_mask = 0` as a placeholder,
    // which would incorrectly classify conflicting rewrites as independent.
    //
    // The scheduler’s conflict logic is defined by explicit overlap checks on
    // nodes/edges/ports; this mirrors that behavior exactly and stays correct
    // while factor masks are still being wired through.
    if a.b_in.intersects(&b.b_in)
        || a.b_in.intersects(&b.b_out)
        || a.b_out.intersects(&b.b_in)
        || a.b_out.intersects(&b.b_out)
    {
        return true;
    }
    if a.e_write.intersects(&b.e_write)
        || a.e_write.intersects(&b.e_read)
        || b.e_write.intersects(&a.e_read)
    {
        return true;
    }
    if a.a_write.intersects(&b.a_write)
        || a.a_write.intersects(&b.a_read)
        || b.a_write.intersects(&a.a_read)
    {
        return true;
    }
    a.n_write.intersects(&b.n_write)
        || a.n_write.intersects(&b.n_read)
        || b.n_write.intersects(&a.n_read)
}
impl Footprint {
    /// Returns `true` when this footprint is independent of `other`.
    ///
    /// Fast path checks the factor mask; then boundary ports; then edges and
    /// nodes. The check is symmetric but implemented with early exits.
    /// Disjoint `factor_mask` values guarantee independence by construction
    /// (the mask is a coarse superset of touched partitions).
    ///
    /// All comparisons are warp-scoped, so resources in different warps
    /// never conflict (even if they share the same local identifier).
    pub fn independent(&self, other: &Self) -> (r: bool)
        requires obeys_cmp::<NodeKey>(), obeys_concrete_eq::<NodeKey>(), obeys_cmp::<EdgeKey>(), obeys_concrete_eq::<EdgeKey>(), obeys_cmp::<AttachmentKey>(), obeys_concrete_eq::<AttachmentKey>(), obeys_cmp::<WarpScopedPortKey>(), obeys_concrete_eq::<WarpScopedPortKey>(),
        ensures r == ((self@.mask & other@.mask) == 0 || !conflict(self@, other@)),
    {
        if (self.factor_mask & other.factor_mask) == 0 {
            return true;
        }
        if self.b_in.intersects(&other.b_in)
            || self.b_in.intersects(&other.b_out)
            || self.b_out.intersects(&other.b_in)
            || self.b_out.intersects(&other.b_out)
        {
            return false;
        }
        if self.e_write.intersects(&other.e_write)
            || self.e_write.intersects(&other.e_read)
            || other.e_write.intersects(&self.e_read)
        {
            return false;
        }
        if self.a_write.intersects(&other.a_write)
            || self.a_write.intersects(&other.a_read)
            || other.a_write.intersects(&self.a_read)
        {
            return false;
        }
        if self.n_write.intersects(&other.n_write)
            || self.n_write.intersects(&other.n_read)
            || other.n_write.intersects(&self.n_read)
        {
            return false;
        }
        true
    }

}

/// Legacy scheduler == radix scheduler whenever partition masks are sound.
pub proof fn lemma_independent_iff_no_conflict_under_sound_masks(a: Fp, b: Fp)
    requires conflict(a, b) ==> (a.mask & b.mask) != 0
    ensures ((a.mask & b.mask) == 0 || !conflict(a, b)) == !conflict(a, b)
{ }
} fn main() {}
