use vstd::prelude::*;
verus! {

pub type Hash = [u8; 32];
use vstd::bytes::*;
pub uninterp spec fn spec_u16_le(x: u16) -> Seq<u8>;
#[verifier::external_body] pub fn le_u16(x: u16) -> (r: [u8; 2]) ensures r@ == spec_u16_le(x) { x.to_le_bytes() }
#[verifier::external_body] pub fn le_u32(x: u32) -> (r: [u8; 4]) ensures r@ == spec_u32_to_le_bytes(x) { x.to_le_bytes() }
#[verifier::external_body] pub fn le_u64(x: u64) -> (r: [u8; 8]) ensures r@ == spec_u64_to_le_bytes(x) { x.to_le_bytes() }



pub struct Blake3Out(pub [u8; 32]);
impl vstd::std_specs::convert::FromSpecImpl<Blake3Out> for [u8; 32] {
    open spec fn obeys_from_spec() -> bool { true }
    open spec fn from_spec(v: Blake3Out) -> [u8; 32] { v.0 }
}
impl From<Blake3Out> for [u8; 32] {
    fn from(v: Blake3Out) -> (r: [u8; 32]) { v.0 }
}
pub struct Hasher { pub ghost_bytes: Ghost<Seq<u8>> }

pub uninterp spec fn blake3_spec(s: Seq<u8>) -> Seq<u8>;

impl View for Hasher { type V = Seq<u8>; closed spec fn view(&self) -> Seq<u8> { self.ghost_bytes@ } }

impl Hasher {
    #[verifier::external_body]
    pub fn new() -> (h: Hasher) ensures h@ == Seq::<u8>::empty() { unimplemented!() }
    #[verifier::external_body]
    pub fn update(&mut self, data: &[u8]) ensures final(self)@ == old(self)@ + data@ { unimplemented!() }
    #[verifier::external_body]
    pub fn finalize(&self) -> (r: Blake3Out) ensures r.0@ == blake3_spec(self@) { unimplemented!() }
}

pub open spec fn flat(s: Seq<Hash>) -> Seq<u8> decreases s.len() {
    if s.len() == 0 { Seq::empty() } else { flat(s.drop_last()) + s.last()@ }
}
pub proof fn lemma_flat_push(s: Seq<Hash>, x: Hash) ensures flat(s.push(x)) == flat(s) + x@ {
    assert(s.push(x).drop_last() == s);
}
pub fn compute_commit_hash_v2(
    state_root: &Hash,
    parents: &[Hash],
    patch_digest: &Hash,
    policy_id: u32,
) -> (r: Hash)
    ensures r@ == blake3_spec(spec_u16_le(2u16) + spec_u64_to_le_bytes(parents@.len() as u64) + flat(parents@) + state_root@ + patch_digest@ + spec_u32_to_le_bytes(policy_id))
{
    let mut h = Hasher::new();
    // Version tag for future evolution.
    h.update(&le_u16(2u16));
    // Parents (length + raw bytes)
    h.update(&le_u64(parents.len() as u64));
    for p in it: parents
        invariant h@ == spec_u16_le(2u16) + spec_u64_to_le_bytes(parents@.len() as u64) + flat(parents@.take(it.index@)),
    {
        proof { lemma_flat_push(parents@.take(it.index@), *p); assert(parents@.take(it.index@+1) == parents@.take(it.index@).push(*p)); }
        h.update(p);
    }
    proof { assert(parents@.take(parents@.len() as int) == parents@); }
    // State root + patch digest + policy id.
    h.update(state_root);
    h.update(patch_digest);
    h.update(&le_u32(policy_id));
    let ghost pre = h@;
    assert(pre == spec_u16_le(2u16) + spec_u64_to_le_bytes(parents@.len() as u64) + flat(parents@) + state_root@ + patch_digest@ + spec_u32_to_le_bytes(policy_id));
    let f = h.finalize();
    assert(f.0@ == blake3_spec(pre));
    f.into()
}

} // verus!
fn main() {}
