// appended to crates/warp-core/src/lib.rs in a scratch copy of /repo (probe; see DESIGN.md §8)
#[cfg(kani)]
mod verif_kani {
    #[kani::proof]
    fn probe_shard_of() {
        let b: [u8; 32] = kani::any();
        let n = crate::NodeId(b);
        assert!(crate::parallel::shard::shard_of(&n) < 256);
    }
}
