// appended to crates/warp-core/src/scheduler.rs in a scratch copy of /repo (probe; see DESIGN.md §8)
#[cfg(kani)]
mod verif_kani {
    use super::*;

    fn any_thin() -> RewriteThin {
        RewriteThin { scope_be32: kani::any(), rule_id: kani::any(), nonce: kani::any(), handle: 0 }
    }

    /// LSD digit order (pass 19 most significant .. pass 0 least) == cmp_thin order.
    #[kani::proof]
    #[kani::unwind(34)]
    fn digits_realise_cmp_thin() {
        let a = any_thin();
        let b = any_thin();
        let mut ord = Ordering::Equal;
        let mut p: usize = 20;
        while p > 0 {
            p -= 1;
            if ord == Ordering::Equal {
                ord = bucket16(&a, p).cmp(&bucket16(&b, p));
            }
        }
        assert!(ord == cmp_thin(&a, &b));
    }

    /// BOUNDED (3 enqueues): drained payload sequence is sorted by key, has unique keys, last-wins.
    #[kani::proof]
    #[kani::unwind(40)]
    fn bounded3_drain_is_sorted_lastwins() {
        let mut q: PendingTx<u8> = PendingTx::default();
        let mut keys: [([u8; 32], u32); 3] = [([0u8; 32], 0); 3];
        let mut i = 0;
        while i < 3 {
            let mut scope = [0u8; 32];
            scope[0] = kani::any();
            scope[31] = kani::any();
            let rule: u32 = kani::any();
            kani::assume(rule < 3);
            keys[i] = (scope, rule);
            q.enqueue(scope, rule, i as u8);
            i += 1;
        }
        let out = q.drain_in_order();
        // every drained payload index is the LAST enqueue of its key; keys strictly ascending
        let mut j = 0;
        while j < out.len() {
            let a = out[j] as usize;
            let mut k = a + 1;
            while k < 3 { assert!(keys[k] != keys[a]); k += 1; }
            if j + 1 < out.len() {
                let b = out[j + 1] as usize;
                assert!(keys[a] < keys[b]);
            }
            j += 1;
        }
        // every key is represented
        let mut m = 0;
        while m < 3 {
            let mut found = false;
            let mut j2 = 0;
            while j2 < out.len() { if keys[out[j2] as usize] == keys[m] { found = true; } j2 += 1; }
            assert!(found);
            m += 1;
        }
        core::mem::forget(out);
        core::mem::forget(q);
    }
}
