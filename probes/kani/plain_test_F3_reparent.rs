//! probe
#![allow(clippy::all, clippy::pedantic, clippy::nursery, clippy::print_stderr, clippy::unwrap_used, clippy::expect_used, missing_docs)]
use warp_core::{make_edge_id, make_node_id, make_type_id, EdgeRecord, GraphStore, NodeRecord};
#[test]
fn probe_reparent() {
    let mut s = GraphStore::default();
    let (a, b, c) = (make_node_id("a"), make_node_id("b"), make_node_id("c"));
    for n in [a, b, c] { s.insert_node(n, NodeRecord { ty: make_type_id("t") }); }
    let e = make_edge_id("e");
    s.insert_edge(a, EdgeRecord { id: e, from: a, to: c, ty: make_type_id("et") });
    eprintln!("before: edges_from(a)={} edges_from(b)={}", s.edges_from(&a).count(), s.edges_from(&b).count());
    s.insert_edge(b, EdgeRecord { id: e, from: b, to: c, ty: make_type_id("et") });
    eprintln!("after upsert e: b->c: edges_from(a)={} edges_from(b)={}", s.edges_from(&a).count(), s.edges_from(&b).count());
}
