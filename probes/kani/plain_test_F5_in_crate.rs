// appended to crates/warp-core/src/tick_patch.rs in a scratch copy (diff_state is pub(crate))
#[cfg(test)]
mod zz_probe_f5 {
    #![allow(clippy::all, clippy::pedantic, clippy::nursery, clippy::print_stderr, clippy::unwrap_used, clippy::expect_used)]
    use super::*;
    use crate::ident::{make_edge_id, make_node_id, make_type_id, make_warp_id};
    use crate::attachment::{AtomPayload, AttachmentValue};
    use crate::record::{EdgeRecord, NodeRecord};
    use crate::graph::GraphStore;
    use crate::warp_state::{WarpInstance, WarpState};

    #[test]
    fn probe_reparent_with_attachment_replay() {
        let w = make_warp_id("root");
        let (a, b, c) = (make_node_id("a"), make_node_id("b"), make_node_id("c"));
        let e = make_edge_id("e");
        let mut store = GraphStore::new(w);
        for n in [a, b, c] { store.insert_node(n, NodeRecord { ty: make_type_id("t") }); }
        store.insert_edge(a, EdgeRecord { id: e, from: a, to: c, ty: make_type_id("et") });
        store.set_edge_attachment(e, Some(AttachmentValue::Atom(AtomPayload::new(make_type_id("p"), bytes::Bytes::from_static(b"X")))));
        let mut before = WarpState::new();
        before.upsert_instance(WarpInstance { warp_id: w, root_node: b, parent: None }, store);
        let mut after = before.clone();
        // re-parent e from a to b, attachment untouched (what a single UpsertEdge op does)
        after.store_mut(&w).unwrap().insert_edge(b, EdgeRecord { id: e, from: b, to: c, ty: make_type_id("et") });
        eprintln!("after has attachment: {}", after.store(&w).unwrap().edge_attachment(&e).is_some());
        let ops = diff_state(&before, &after);
        eprintln!("ops = {:?}", ops.iter().map(|o| format!("{:?}", o.sort_key().kind)).collect::<Vec<_>>());
        let mut replay = before.clone();
        let r = apply_ops_to_state(&mut replay, &ops);
        eprintln!("apply -> {:?}; replay has attachment: {}", r, replay.store(&w).unwrap().edge_attachment(&e).is_some());
        let root = crate::ident::NodeKey { warp_id: w, local_id: b };
        let h1 = crate::snapshot::compute_state_root(&after, &root);
        let h2 = crate::snapshot::compute_state_root(&replay, &root);
        eprintln!("state roots equal: {}", h1 == h2);
    }
}
