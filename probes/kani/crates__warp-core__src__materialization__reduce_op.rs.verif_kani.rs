// appended to crates/warp-core/src/materialization/reduce_op.rs in a scratch copy of /repo (probe; see DESIGN.md §8)
#[cfg(kani)]
mod verif_kani {
    use super::*;

    fn any_vec(max: usize) -> Vec<u8> {
        let len: usize = kani::any();
        kani::assume(len <= max);
        let mut v = Vec::with_capacity(len);
        let mut i = 0;
        while i < len { v.push(kani::any()); i += 1; }
        v
    }

    /// BOUNDED: 3 operands, each 0..=2 bytes: BitAnd is invariant under all 6 orders.
    #[kani::proof]
    #[kani::unwind(6)]
    fn bounded_bitand_perm3() {
        let a = any_vec(2); let b = any_vec(2); let c = any_vec(2);
        let r0 = ReduceOp::BitAnd.apply(vec![a.clone(), b.clone(), c.clone()]);
        let r1 = ReduceOp::BitAnd.apply(vec![c.clone(), a.clone(), b.clone()]);
        let r2 = ReduceOp::BitAnd.apply(vec![b.clone(), c.clone(), a.clone()]);
        assert!(r0 == r1 && r1 == r2);
    }
}
