//! probe
#![allow(clippy::all, clippy::pedantic, clippy::nursery, clippy::print_stderr, clippy::unwrap_used, clippy::expect_used)]
use ciborium::value::{Integer, Value};
use echo_wasm_abi::canonical::{decode_value, encode_value};
#[test]
fn probe_big_negative() {
    let v = Value::Integer(Integer::try_from(-(1i128 << 63) - 1).unwrap());
    let e = encode_value(&v);
    eprintln!("encode(-2^63-1) -> {:02x?}", e);
    if let Ok(b) = e { eprintln!("decode -> {:?}", decode_value(&b)); }
    let v = Value::Float(-0.0);
    let e = encode_value(&v).unwrap();
    eprintln!("encode(-0.0) -> {:02x?} decode -> {:?}", e, decode_value(&e));
    let v = Value::Float(3.0);
    let e = encode_value(&v).unwrap();
    eprintln!("encode(3.0) -> {:02x?} decode -> {:?}", e, decode_value(&e));
}
