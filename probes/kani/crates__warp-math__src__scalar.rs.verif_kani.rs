// appended to crates/warp-math/src/scalar.rs in a scratch copy of /repo (probe; see DESIGN.md §8)
#[cfg(kani)]
mod verif_kani {
    use super::*;
    fn canonical(bits: u32) -> bool {
        let f = f32::from_bits(bits);
        bits != 0x8000_0000 && !f.is_subnormal() && (!f.is_nan() || bits == 0x7fc0_0000)
    }
    fn any_s() -> F32Scalar { F32Scalar::new(f32::from_bits(kani::any())) }
    #[kani::proof] fn new_canonical() { let s = any_s(); assert!(canonical(s.to_f32().to_bits())); }
    #[kani::proof] fn new_idempotent() { let s = any_s(); assert!(F32Scalar::new(s.to_f32()).to_f32().to_bits() == s.to_f32().to_bits()); }
    #[kani::proof] fn add_canonical() { let s = any_s() + any_s(); assert!(canonical(s.to_f32().to_bits())); }
    #[kani::proof] fn sub_canonical() { let s = any_s() - any_s(); assert!(canonical(s.to_f32().to_bits())); }
    #[kani::proof] fn mul_canonical() { let s = any_s() * any_s(); assert!(canonical(s.to_f32().to_bits())); }
    #[kani::proof] fn div_canonical() { let s = any_s() / any_s(); assert!(canonical(s.to_f32().to_bits())); }
    #[kani::proof] fn neg_canonical() { let s = -any_s(); assert!(canonical(s.to_f32().to_bits())); }
    #[kani::proof] fn fixed_from_f32_total() { let x: u32 = kani::any(); let _ = crate::fixed_q32_32::from_f32(f32::from_bits(x)); }
    #[kani::proof] fn fixed_to_f32_total() { let x: i64 = kani::any(); let f = crate::fixed_q32_32::to_f32(x); assert!(!f.is_nan()); }
    #[kani::proof] fn sin_qtr_total_in_range() {
        let x: u32 = kani::any(); let a = f32::from_bits(x);
        kani::assume(a >= 0.0 && a <= core::f32::consts::FRAC_PI_2);
        let (s, c) = crate::trig::sin_cos_f32(a);
        assert!(s >= 0.0 && s <= 1.0 && c >= 0.0 && c <= 1.0);
    }
}
