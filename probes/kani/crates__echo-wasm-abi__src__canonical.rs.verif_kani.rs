// appended to crates/echo-wasm-abi/src/canonical.rs in a scratch copy of /repo (probe; see DESIGN.md §8)
#[cfg(kani)]
mod verif_kani {
    use super::*;

    /// Accepted => canonical, f16 payloads: f9 hh hh.
    #[kani::proof]
    #[kani::unwind(3)]
    fn probe_f16_accept_implies_canonical() {
        let b1: u8 = kani::any();
        let b2: u8 = kani::any();
        let bytes = [0xf9u8, b1, b2];
        let mut idx = 0usize;
        let r = dec_value(&bytes, &mut idx);
        let ok_float = match &r { Ok(Value::Float(f)) => Some(*f), _ => None };
        core::mem::forget(r);
        if let Some(f) = ok_float {
            let mut out = Vec::new();
            enc_float(f, &mut out);
            assert!(out.len() == 3 && out[0] == 0xf9 && out[1] == b1 && out[2] == b2);
            core::mem::forget(out);
        }
    }

    /// Total on array heads: 0x9b + 8 length bytes, nothing else.
    #[kani::proof]
    #[kani::unwind(10)]
    fn probe_array_head_total() {
        let len: [u8; 8] = kani::any();
        let bytes = [0x9bu8, len[0], len[1], len[2], len[3], len[4], len[5], len[6], len[7]];
        let mut idx = 0usize;
        let r = dec_value(&bytes, &mut idx);
        let is_err = r.is_err();
        core::mem::forget(r);
        assert!(is_err);
    }

    #[kani::proof]
    #[kani::unwind(3)]
    fn probe_f32_accept_implies_canonical() {
        let b: [u8; 4] = kani::any();
        let bytes = [0xfau8, b[0], b[1], b[2], b[3]];
        let mut idx = 0usize;
        let r = dec_value(&bytes, &mut idx);
        let ok_float = match &r { Ok(Value::Float(f)) => Some(*f), _ => None };
        core::mem::forget(r);
        if let Some(f) = ok_float {
            let mut out = Vec::new();
            enc_float(f, &mut out);
            assert!(out.len() == 5 && out[0] == 0xfa && out[1] == b[0] && out[2] == b[1] && out[3] == b[2] && out[4] == b[3]);
            core::mem::forget(out);
        }
    }
    #[kani::proof]
    #[kani::unwind(3)]
    fn probe_f64_accept_implies_canonical() {
        let b: [u8; 8] = kani::any();
        let bytes = [0xfbu8, b[0], b[1], b[2], b[3], b[4], b[5], b[6], b[7]];
        let mut idx = 0usize;
        let r = dec_value(&bytes, &mut idx);
        let ok_float = match &r { Ok(Value::Float(f)) => Some(*f), _ => None };
        core::mem::forget(r);
        if let Some(f) = ok_float {
            let mut out = Vec::new();
            enc_float(f, &mut out);
            assert!(out.len() == 9 && out[0] == 0xfb && out[1] == b[0] && out[8] == b[7]);
            core::mem::forget(out);
        }
    }
    /// round trip: every non-integral f64 encodes to bytes that decode to the same bits
    #[kani::proof]
    #[kani::unwind(3)]
    fn probe_float_roundtrip() {
        let bits: u64 = kani::any();
        let f = f64::from_bits(bits);
        kani::assume(!is_exact_int(f) && !f.is_nan());
        let mut out = Vec::new();
        enc_float(f, &mut out);
        let mut idx = 0usize;
        let r = dec_value(out.as_slice(), &mut idx);
        let ok_float = match &r { Ok(Value::Float(g)) => Some(*g), _ => None };
        core::mem::forget(r);
        assert!(ok_float.is_some());
        assert!(ok_float.unwrap().to_bits() == bits);
        assert!(idx == out.len());
        core::mem::forget(out);
    }
}
