#!/usr/bin/env python3
"""helper (authoring time only): wrap the Verus annotations of a probe-style function in /*@ @*/"""
import re, sys
src = sys.stdin.read().split("\n")
out = []
i = 0
while i < len(src):
    ln = src[i]
    st = ln.strip()
    if re.match(r"(invariant_except_break|invariant|requires|ensures|decreases)\b", st):
        blk = []
        while i < len(src) and src[i].strip() not in ("{",):
            blk.append(src[i]); i += 1
        out.append("/*@ " + "\n".join(blk).strip("\n") + " @*/")
        continue
    if re.match(r"(proof\s*\{.*\}|let ghost .*;|assert\(.*\);)\s*$", st):
        out.append(re.match(r"\s*", ln).group(0) + "/*@ " + st + " @*/")
        i += 1
        continue
    if re.match(r"proof\s*\{\s*$", st):
        blk = []
        depth = 0
        while i < len(src):
            blk.append(src[i]); depth += src[i].count("{") - src[i].count("}"); i += 1
            if depth == 0:
                break
        out.append("/*@ " + "\n".join(blk) + " @*/")
        continue
    out.append(ln)
    i += 1
print("\n".join(out))
