#!/usr/bin/env python3
"""regenerate MANIFEST.json from units/props.json (claimed) + units/not_applicable.json"""
import json, os
V = os.path.dirname(os.path.dirname(os.path.abspath(__file__)))
props = {k: v for k, v in json.load(open(os.path.join(V, "units", "props.json"))).items() if v.get("level_text") != "draft"}  # drafts are not claimed
na = json.load(open(os.path.join(V, "units", "not_applicable.json")))
checks = []
for pid in sorted(props):
    c = props[pid]
    checks.append({
        "property_id": pid,
        "quick_cmd": "bin/check %s --tier quick" % pid,
        "thorough_cmd": "bin/check %s --tier thorough" % pid,
        "evidence_file": "evidence/%s.json" % pid,
        "replay_cmd_template": "bin/check --replay {path}",
        "engine": "verus+kani",
        "level_claimed": {"category": "proof", "text": c["level_text"], "design_ref": c.get("design_ref", "DESIGN.md §4 " + pid)},
        "level_note": c["level_note"],
        "technique": c.get("technique", "contract-based deductive verification (Verus on functions extracted verbatim from /repo each run; complete Kani harnesses on the real crate)"),
    })
m = {
    "version": 1,
    "setup_cmd": "true",
    "hooks": {
        "guard": "cfg(kani) — harness modules are appended to a scratch copy of /repo only; /repo itself carries no hooks",
        "enable": "none needed: Verus units are extracted from /repo's working tree by bin/check; Kani harnesses are appended to a scratch rsync copy and compiled by `cargo kani` (which sets cfg(kani))",
        "baseline_off_cmd": "cd /repo && cargo test --workspace --no-fail-fast --offline",
        "source_commits": [],
        "add_only": True,
    },
    "engines": [
        {"name": "verus", "path": "vtool/driver.py", "serves_properties": sorted(props), "kind_free_text": "deductive verifier (Verus 0.2026.09.13 / Z3) over functions extracted mechanically from /repo on every run with contracts spliced from units/*.vrs"},
        {"name": "kani", "path": "vtool/kanirun.py", "serves_properties": sorted(p for p in props if props[p].get("kani")), "kind_free_text": "Kani 0.68 / CBMC on the real crate (scratch copy), loop-free full-domain harnesses = complete; bounded ones labelled"},
    ],
    "checks": checks,
    "not_applicable": [{"property_id": k, "reason": v} for k, v in sorted(na.items()) if k not in props],
    "notes": "Exit codes: 0 proved, 1 VIOLATION (a named obligation failed with the verifier's own verdict), 2 undecided (lost anchor / unsupported construct / rlimit / timeout) - never an alarm. See DESIGN.md.",
}
json.dump(m, open(os.path.join(V, "MANIFEST.json"), "w"), indent=1)
print("MANIFEST.json: %d checks, %d not_applicable" % (len(checks), len(m["not_applicable"])))
