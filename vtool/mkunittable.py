#!/usr/bin/env python3
"""regenerate the as-built table of DESIGN.md section 9 (between the markers UNITTABLE-BEGIN/END) from units/props.json and the
evidence files written by the checks (functions_under_contract = items extracted from /repo WITH a contract overlay)"""
import json, os, re
V = os.path.dirname(os.path.dirname(os.path.abspath(__file__)))
props = json.load(open(os.path.join(V, "units", "props.json")))
rows = []
for pid in sorted(props):
    cfg = props[pid]
    if cfg.get("level_text") == "draft":
        continue
    units = [u["unit"] for u in cfg.get("verus", []) if not u.get("wip")]
    kani = []
    for g in cfg.get("kani") or []:
        for s in g.get("sets", []):
            for h in s["harnesses"]:
                if h.get("expect") == "fail":
                    continue
                kani.append(h["name"] + (" (bounded)" if h.get("bounded") else "") + (" [thorough]" if h.get("tier") == "thorough" else ""))
    fns, obl = {}, "?"
    try:
        ev = json.load(open(os.path.join(V, "evidence", pid + ".json")))
        obl = "%d/%d" % (ev["coverage"]["discharged"], ev["coverage"]["obligations"])
        for f in ev["coverage"].get("functions_under_contract", []):
            cl = f.get("clauses", {})
            if not (cl.get("ensures") or cl.get("requires") or cl.get("invariants") or cl.get("annotations")):
                continue   # extracted verbatim without an overlay (callee / accessor): verified for safety only
            name = re.sub(r"^impl(<[^>]*>)? ", "", f["path"]).replace(" :: fn ", "::").replace("fn ", "")
            fns.setdefault(f["unit"], []).append(name)
    except Exception:
        pass
    fl = "; ".join("%s: %s" % (u, ", ".join("`%s`" % n for n in fns.get(u, [])) or "(pure specification / theorems)") for u in units)
    rows.append("| %s | %s | %s | %s | %s |" % (pid, ", ".join(units), "; ".join(kani) or "—", obl, fl))
tab = ("| id | units (Verus) | Kani harnesses (complete unless marked) | discharged/obligations (quick, unchanged tree) | functions of /repo verified under a contract overlay, per unit |\n"
       "|---|---|---|---|---|\n" + "\n".join(rows))
p = os.path.join(V, "DESIGN.md")
s = open(p).read()
b, e = "<!-- UNITTABLE-BEGIN -->", "<!-- UNITTABLE-END -->"
if b in s:
    s = s[:s.index(b) + len(b)] + "\n" + tab + "\n" + s[s.index(e):]
    open(p, "w").write(s)
print("%d rows" % len(rows))
