"""Kani track: the real crate, compiled from a scratch rsync copy of /repo's working tree, with
harness modules appended to source files of the scratch copy only (`#[cfg(kani)] mod …`)."""
import os
import re
import shutil
import subprocess
import tempfile
import time


def _env():
    e = dict(os.environ)
    e["CARGO_NET_OFFLINE"] = "true"
    e.pop("RUSTUP_TOOLCHAIN", None)
    return e


def make_scratch(repo):
    base = os.environ.get("VERIF_SCRATCH") or os.environ.get("TMPDIR") or "/var/tmp"
    d = tempfile.mkdtemp(prefix="echo-verif-kani.", dir=base)
    subprocess.run(["rsync", "-a", "--exclude", "target", "--exclude", ".git", "--exclude", "node_modules",
                    repo.rstrip("/") + "/", d + "/"], check=True)
    return d


def parse_terse(out):
    """-> {harness_short_name: dict(status, failed_checks, checks, time)}"""
    res = {}
    thread_h = {}
    cur = None
    single = None
    for ln in out.split("\n"):
        m = re.match(r"(?:Thread (\d+): )?Checking harness (\S+?)\.\.\.", ln)
        if m:
            if m.group(1) is None:
                single = m.group(2); cur = single
                res.setdefault(cur, {"status": None, "failed_checks": [], "checks": 0, "raw": []})
            else:
                thread_h[m.group(1)] = m.group(2)
            continue
        m = re.match(r"Thread (\d+):\s*$", ln)
        if m:
            cur = thread_h.get(m.group(1))
            res.setdefault(cur, {"status": None, "failed_checks": [], "checks": 0, "raw": []})
            continue
        if cur is None:
            continue
        r = res[cur]
        r["raw"].append(ln)
        m = re.search(r"\*\* (\d+) of (\d+) failed", ln)
        if m:
            r["checks"] = int(m.group(2)); r["nfailed"] = int(m.group(1))
        m = re.match(r"Failed Checks: (.*)$", ln)
        if m:
            r["failed_checks"].append(m.group(1).strip())
        m = re.match(r"\s*File: \"(.*?)\", line (\d+)", ln)
        if m and r["failed_checks"] and "loc" not in r:
            r["loc"] = "%s:%s" % (m.group(1), m.group(2))
        if "VERIFICATION:- SUCCESSFUL" in ln:
            r["status"] = "success"
        elif "VERIFICATION:- FAILED" in ln:
            r["status"] = "failure" if r["failed_checks"] else "undecided"
        m = re.match(r"Verification Time: ([0-9.]+)s", ln)
        if m:
            r["time"] = float(m.group(1))
            cur = single
        if "out of memory" in ln or "timed out" in ln.lower() or "Timeout" in ln:
            r["oom_or_timeout"] = True
    return res


def run_group(prop, kcfg, tier, repo, verif, seed):
    results = []
    scratch = None
    try:
        scratch = make_scratch(repo)
        for g in kcfg:
            for target, modfile in g.get("inject", []):
                with open(os.path.join(verif, modfile)) as f:
                    mod = f.read()
                with open(os.path.join(scratch, target), "a") as f:
                    f.write("\n" + mod + "\n")
            for s in g["sets"]:
                hs = [h for h in s["harnesses"] if tier == "thorough" or h.get("tier", "quick") == "quick"]
                if not hs:
                    continue
                tmo = max(h.get("timeout", 300) for h in hs)
                cmd = ["cargo", "kani", "-p", g["crate"]] + g.get("cargo_flags", []) + ["-Z", "unstable-options", "-Z", "function-contracts", "-Z", "stubbing",
                       "-j", str(s.get("jobs", 8)), "--output-format", "terse", "--harness-timeout", "%ds" % tmo] + s.get("flags", [])
                for h in hs:
                    cmd += ["--harness", h["name"]]
                if s.get("exact", False):
                    cmd += ["--exact"]
                t0 = time.time()
                try:
                    p = subprocess.run(cmd, cwd=scratch, env=_env(), capture_output=True, text=True, timeout=tmo * 2 + g.get("build_timeout", 900))
                    out = p.stdout + "\n" + p.stderr
                except subprocess.TimeoutExpired as e:
                    out = (e.stdout or b"").decode(errors="replace") if isinstance(e.stdout, bytes) else (e.stdout or "")
                    out += "\n[driver] overall timeout"
                wall = time.time() - t0
                parsed = parse_terse(out)
                stubs = sorted(set(re.findall(r"- Stub: (.*)", out)))
                for h in hs:
                    key = [k for k in parsed if k and (k == h["name"] or k.endswith("::" + h["name"]))]
                    r = {"harness": h["name"], "covers": h.get("covers", ""), "bounded": h.get("bounded"), "cmd": " ".join(cmd),
                         "crate": g["crate"], "stubs": stubs, "group": g, "set": s}
                    if not key or parsed[key[0]]["status"] is None:
                        r["status"] = "undecided"
                        tail = [l for l in out.split("\n") if l.startswith("error") or "unsupported" in l.lower() or "out of memory" in l][-5:]
                        r["detail"] = "no verdict (timeout %ds, build error or unsupported construct): %s" % (tmo, " | ".join(tail) or out[-400:])
                    else:
                        pr = parsed[key[0]]
                        r["status"] = pr["status"]
                        r["checks"] = pr["checks"]
                        r["wall_s"] = pr.get("time", wall)
                        if pr["status"] == "undecided":
                            r["detail"] = "VERIFICATION FAILED without a failed check (CBMC out of memory / unwinding / unsupported)"
                        if pr["status"] == "failure":
                            r["failed_check"] = "; ".join(pr["failed_checks"])
                            r["loc"] = pr.get("loc", "")
                            # known-violating harnesses marked expect_fail are inverted vacuity guards
                            _playback(r, g, s, h, scratch)
                    if h.get("expect") == "fail":
                        # guard harness: must fail, proves the harness is not vacuous
                        if r["status"] == "failure":
                            r["status"] = "success"; r["covers"] += " (reachability guard: failed as required)"
                        elif r["status"] == "success":
                            r["status"] = "undecided"; r["detail"] = "guard harness unexpectedly verified (vacuous harness?)"
                    results.append(r)
    except Exception as e:  # tool problem, never an alarm
        results.append({"harness": "<kani-setup>", "status": "undecided", "detail": repr(e), "cmd": ""})
    finally:
        if scratch and not os.environ.get("VERIF_KEEP_SCRATCH"):
            shutil.rmtree(scratch, ignore_errors=True)
    return results


def _playback(r, g, s, h, scratch):
    """re-run one failing harness alone with concrete playback to obtain the witness values"""
    cmd = ["cargo", "kani", "-p", g["crate"]] + g.get("cargo_flags", []) + ["-Z", "unstable-options", "-Z", "function-contracts", "-Z", "stubbing",
           "-Z", "concrete-playback", "--concrete-playback=print", "--harness", h["name"], "--harness-timeout", "%ds" % h.get("timeout", 300)] + s.get("flags", [])
    try:
        p = subprocess.run(cmd, cwd=scratch, env=_env(), capture_output=True, text=True, timeout=h.get("timeout", 300) * 2 + 300)
        out = p.stdout
    except subprocess.TimeoutExpired:
        out = ""
    m = re.search(r"Concrete playback unit test for `.*?`:\n```\n(.*?)```", out, re.S)
    if m:
        r["witness"] = m.group(1)
        r["replayed"] = True
    fails = re.findall(r"Check \d+: (.*?)\n\s+- Status: FAILURE\n\s+- Description: \"(.*?)\"\n\s+- Location: (.*?)\n", out)
    r["failed_detail"] = ["%s | %s | %s" % f for f in fails][:10]


def write_replay(verif, prop, k):
    os.makedirs(os.path.join(verif, "replays"), exist_ok=True)
    path = os.path.join(verif, "replays", "%s-kani-%s.txt" % (prop, k["harness"]))
    with open(path, "w") as f:
        f.write("property: %s\nunit: kani/%s\nobligation: kani harness %s (crate %s) - %s\n" % (prop, k["harness"], k["harness"], k.get("crate"), k.get("covers", "")))
        f.write("failed check: %s at %s\n" % (k.get("failed_check"), k.get("loc")))
        for d in k.get("failed_detail", []):
            f.write("  " + d + "\n")
        f.write("command: %s\n" % k.get("cmd"))
        if k.get("witness"):
            f.write("\nconcrete counterexample (Kani concrete playback; the harness calls the real function of the crate compiled from /repo):\n")
            f.write(k["witness"])
        else:
            f.write("\nno concrete values were produced: no-failing-input-found\n")
    return path
