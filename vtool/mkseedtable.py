#!/usr/bin/env python3
"""regenerate the seeded-change table of DESIGN.md (between the markers SEEDTABLE-BEGIN/END) from seeded/*/{meta,confirm,detect}.json"""
import json, os, re, glob
V = os.path.dirname(os.path.dirname(os.path.abspath(__file__)))
rows = []
for d in sorted(glob.glob(os.path.join(V, "seeded", "*", ""))):
    try:
        m = json.load(open(os.path.join(d, "meta.json")))
    except Exception:
        continue
    def load(n):
        try:
            return json.load(open(os.path.join(d, n)))
        except Exception:
            return {}
    c, t = load("confirm.json"), load("detect.json")
    verdict = t.get("verdict", "not run")
    short = {"DETECTED (VIOLATION)": "**detected**", "MISSED (check passes)": "missed", "UNDECIDED (exit 2)": "undecided (exit 2)"}.get(verdict, verdict)
    obl = "; ".join(re.sub(r"/[0-9a-f]{8}$", "", o) for o in t.get("failed_obligations", [])[:2])
    und = (t.get("undecided") or [""])[0]
    und = re.sub(r"^UNDECIDED: ", "", und)[:110]
    rows.append("| %s | %s | %s | %s | %s | %s |" % (m["seed"], m.get("title", "").replace("|", "/")[:170], (m.get("needs_to_manifest", "") or "").replace("|", "/")[:150],
                "yes" if c.get("confirmed") else ("no" if c else "—"), short, obl or (und if short.startswith("undecided") else "")))
tab = "| seed | change | needs | confirmed | result of the property's quick check | failing obligation / reason |\n|---|---|---|---|---|---|\n" + "\n".join(rows)
p = os.path.join(V, "DESIGN.md")
s = open(p).read()
b, e = "<!-- SEEDTABLE-BEGIN -->", "<!-- SEEDTABLE-END -->"
if b in s:
    s = s[:s.index(b) + len(b)] + "\n" + tab + "\n" + s[s.index(e):]
    open(p, "w").write(s)
det = sum(1 for r in rows if "**detected**" in r); mis = sum(1 for r in rows if "| missed |" in r); und = sum(1 for r in rows if "undecided (exit 2)" in r)
print("%d seeds: %d detected, %d missed, %d undecided" % (len(rows), det, mis, und))
