"""Minimal Rust tokenizer (byte offsets preserved) used by the mechanical extractor.

It only has to be exact about token *boundaries* (strings, raw strings, chars vs lifetimes,
nested block comments, numbers with suffixes) so that brace matching and token-sequence
matching are reliable.  Nothing here interprets Rust.
"""
import re
from collections import namedtuple

Tok = namedtuple("Tok", "kind text start end")  # kind: id life num str chr punct

_ID = re.compile(r"[A-Za-z_][A-Za-z0-9_]*")
_NUM = re.compile(r"(0x[0-9a-fA-F_]+|0o[0-7_]+|0b[01_]+|[0-9][0-9_]*(\.[0-9][0-9_]*)?([eE][+-]?[0-9_]+)?)([A-Za-z][A-Za-z0-9_]*)?")
_PUNCT3 = ("<<=", ">>=", "...", "..=")
_PUNCT2 = ("::", "->", "=>", "==", "!=", "<=", ">=", "&&", "||", "+=", "-=", "*=", "/=", "%=",
           "^=", "&=", "|=", "<<", ">>", "..")


class TokError(Exception):
    pass


def tokenize(src, annot=False):
    """Return the token list (whitespace and comments excluded; doc comments are comments).
    With annot=True, block comments of the form /*@ ... @*/ are returned as tokens of kind
    "annot" whose text is the comment's inner text (used by mirror templates)."""
    toks = []
    i, n = 0, len(src)
    while i < n:
        c = src[i]
        if c.isspace():
            i += 1
            continue
        if src.startswith("//", i):
            j = src.find("\n", i)
            i = n if j < 0 else j
            continue
        if annot and src.startswith("/*@", i):
            j = src.find("@*/", i)
            if j < 0:
                raise TokError("unterminated /*@ annotation at %d" % i)
            toks.append(Tok("annot", src[i + 3:j], i, j + 3)); i = j + 3
            continue
        if src.startswith("/*", i):
            depth, j = 1, i + 2
            while j < n and depth:
                if src.startswith("/*", j):
                    depth += 1; j += 2
                elif src.startswith("*/", j):
                    depth -= 1; j += 2
                else:
                    j += 1
            if depth:
                raise TokError("unterminated block comment at %d" % i)
            i = j
            continue
        # raw strings / byte strings / c strings
        m = re.match(r"(b|c)?r(#*)\"", src[i:i + 40])
        if m:
            hashes = m.group(2)
            close = '"' + hashes
            j = src.find(close, i + m.end())
            if j < 0:
                raise TokError("unterminated raw string at %d" % i)
            j += len(close)
            toks.append(Tok("str", src[i:j], i, j)); i = j
            continue
        if c == '"' or (c in "bc" and i + 1 < n and src[i + 1] == '"'):
            j = i + (1 if c == '"' else 2)
            while j < n and src[j] != '"':
                j += 2 if src[j] == "\\" else 1
            if j >= n:
                raise TokError("unterminated string at %d" % i)
            j += 1
            toks.append(Tok("str", src[i:j], i, j)); i = j
            continue
        if c == "'" or (c == "b" and i + 1 < n and src[i + 1] == "'"):
            k = i + (0 if c == "'" else 1)
            # char literal or lifetime
            if src[k + 1] == "\\":
                j = k + 2
                # escape: \n \' \x41 \u{...}
                if src[j] == "u":
                    j = src.find("}", j) + 1
                elif src[j] == "x":
                    j += 3
                else:
                    j += 1
                if src[j] != "'":
                    raise TokError("bad char literal at %d" % i)
                j += 1
                toks.append(Tok("chr", src[i:j], i, j)); i = j
                continue
            if k + 2 < n and src[k + 2] == "'" :
                j = k + 3
                toks.append(Tok("chr", src[i:j], i, j)); i = j
                continue
            # multi-byte char literal e.g. 'é'
            m2 = re.match(r"'[^'\\\n]'", src[k:k + 8])
            if m2:
                j = k + m2.end()
                toks.append(Tok("chr", src[i:j], i, j)); i = j
                continue
            m3 = _ID.match(src, k + 1)
            if c == "'" and m3:
                j = m3.end()
                toks.append(Tok("life", src[i:j], i, j)); i = j
                continue
            raise TokError("bad quote at %d" % i)
        m = _ID.match(src, i)
        if m:
            j = m.end()
            # raw identifiers r#ident
            if m.group(0) == "r" and src.startswith("#", j) and _ID.match(src, j + 1):
                j = _ID.match(src, j + 1).end()
            toks.append(Tok("id", src[i:j], i, j)); i = j
            continue
        if c.isdigit():
            m = _NUM.match(src, i)
            j = m.end()
            # "1..2" : do not swallow the range dots; "1.foo()" : do not swallow the dot
            txt = src[i:j]
            if "." in txt:
                dot = i + txt.index(".")
                if src.startswith("..", dot) or (dot + 1 < n and (src[dot + 1].isalpha() or src[dot + 1] == "_")):
                    m = re.compile(r"[0-9][0-9_]*([A-Za-z][A-Za-z0-9_]*)?").match(src, i)
                    j = m.end()
            toks.append(Tok("num", src[i:j], i, j)); i = j
            continue
        for p in _PUNCT3:
            if src.startswith(p, i):
                toks.append(Tok("punct", p, i, i + 3)); i += 3
                break
        else:
            for p in _PUNCT2:
                if src.startswith(p, i):
                    toks.append(Tok("punct", p, i, i + 2)); i += 2
                    break
            else:
                toks.append(Tok("punct", c, i, i + 1)); i += 1
    return toks


OPEN = {"(": ")", "[": "]", "{": "}"}
CLOSE = {")": "(", "]": "[", "}": "{"}


def match_groups(toks):
    """Return dict open_index -> close_index (and reverse) for (), [], {}.
    `>>` etc. are never brackets here; angle brackets are not matched."""
    stack, m = [], {}
    for idx, t in enumerate(toks):
        if t.kind != "punct":
            continue
        if t.text in OPEN:
            stack.append(idx)
        elif t.text in CLOSE:
            if not stack or toks[stack[-1]].text != CLOSE[t.text]:
                raise TokError("unbalanced %r at offset %d" % (t.text, t.start))
            o = stack.pop()
            m[o] = idx
            m[idx] = o
    if stack:
        raise TokError("unclosed %r at offset %d" % (toks[stack[-1]].text, toks[stack[-1]].start))
    return m


def norm(text):
    """Whitespace/comment-insensitive normal form of a Rust fragment."""
    return " ".join(t.text for t in tokenize(text))
