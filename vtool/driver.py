#!/usr/bin/env python3
"""check driver: `bin/check <ID> [--tier quick|thorough]`, `bin/check --replay <path>`.

Exit codes: 0 = every declared obligation discharged on /repo's current working tree;
1 = a verifier said "not satisfied"/FAILURE on a named obligation (VIOLATION line printed);
2 = undecided (lost anchor, unsupported construct, rlimit/timeout, tool error) - never an alarm.
"""
import concurrent.futures as cf
import hashlib
import json
import os
import re
import shutil
import subprocess
import sys
import time

HERE = os.path.dirname(os.path.abspath(__file__))
VERIF = os.path.dirname(HERE)
sys.path.insert(0, HERE)
import extract  # noqa: E402
import kanirun  # noqa: E402

import threading
ASSEMBLE_LOCK = threading.Lock()
REPO = os.environ.get("VERIF_REPO", "/repo")
VERUS = shutil.which("verus") or "/usr/local/bin/verus"

PROOF_FAIL = re.compile(r"(postcondition|precondition|invariant|decreases) not satisfied|precondition not met|unable to prove post-condition of closure|assertion failed|possible arithmetic|possible division|possible bit shift|"
                        r"could not prove termination|decreases not satisfied|unreachable|"
                        r"failed precondition|cannot show|might not be|recommendation not met: value may be out of range")
RLIMIT = re.compile(r"[Rr]esource limit|rlimit")


def load_props():
    with open(os.path.join(VERIF, "units", "props.json")) as f:
        return json.load(f)


def load_known():
    res = []
    p = os.path.join(VERIF, "known_findings.txt")
    if os.path.exists(p):
        for ln in open(p):
            ln = ln.strip()
            if ln.startswith("finding:"):
                kv = dict(re.findall(r"(\w+)=(\S+)", ln))
                kv["_text"] = ln[len("finding:"):].strip()
                res.append(kv)
    return res


def parse_verus_errors(stderr, linemap, fname):
    """-> list of dict(msg, line, snippet, where)"""
    errs = []
    lines = stderr.split("\n")
    i = 0
    while i < len(lines):
        m = re.match(r"error(\[E\d+\])?: (.*)$", lines[i])
        if m and not m.group(2).startswith("aborting due to"):
            msg = m.group(2)
            if m.group(1):
                msg = "rustc " + m.group(1) + " " + msg   # a compiler (type/borrow) error is never a proof verdict
            line = None
            col = None
            snippet = ""
            j = i + 1
            while j < len(lines) and not re.match(r"(error|warning|note)(\[|:)", lines[j]):
                mm = re.match(r"\s*--> .*?:(\d+):(\d+)", lines[j])
                if mm and line is None:
                    line = int(mm.group(1)); col = int(mm.group(2))
                ms = re.match(r"\s*(\d+) \| (.*)$", lines[j])
                if ms and line is not None and int(ms.group(1)) == line and not snippet:
                    snippet = ms.group(2).strip()
                j += 1
            where = None
            if line is not None:
                for a, b, w in linemap:
                    if a <= line <= b:
                        where = w
                        break
            errs.append({"msg": msg, "line": line, "col": col, "snippet": snippet, "where": where})
            i = j
            continue
        i += 1
    return errs


def scaffolding_obligation(e, assembled):
    """is the failed obligation part of the PROOF (loop invariant, decreases, precondition of a proof-fn call) rather than a
    contract obligation of the code?"""
    msg = e["msg"]
    # "invariant not satisfied BEFORE loop" depends on the statements preceding the loop (a statement moved across the loop
    # breaks it although nothing changed semantically); preservation failures ("at end of loop body", at a `continue`) are
    # about the loop's own body and stay verdicts - same residual risk as for local drift (see DESIGN 9.2)
    if re.search(r"invariant not satisfied before loop|decreases not satisfied", msg):
        return True
    if msg.startswith("precondition not satisfied") and assembled and e.get("line") and e.get("col"):
        try:
            text = open(assembled).read()
            src = text.split("\n")[e["line"] - 1][e["col"] - 1:]
        except (OSError, IndexError):
            return False
        m = re.match(r"([A-Za-z_][A-Za-z0-9_]*(?:\s*::\s*[A-Za-z_][A-Za-z0-9_]*)*)\s*(?:::\s*<[^()]*>)?\s*\(", src)
        if m:
            name = m.group(1).split("::")[-1].strip()
            return re.search(r"\bproof\s+fn\s+%s\b" % re.escape(name), text) is not None
    return False


def obligation_id(unit, e):
    h = hashlib.sha256(extract.sha(" ".join(e["snippet"].split())).encode()).hexdigest()[:8]
    w = (e["where"] or "spec").split("::")[-1].strip().replace(" ", "_")
    cls = re.sub(r"[^a-z]+", "-", e["msg"].lower())[:40].strip("-")
    return "%s/%s/%s/%s" % (unit, w, cls, h)


def variant_template(src, variant):
    """generate the vacuity-guard variants of a unit template (text -> text)."""
    if variant == "main":
        return src
    out = []
    lines = src.split("\n")
    i = 0
    while i < len(lines):
        ln = lines[i]
        if ln.lstrip().startswith("//@ extract"):
            blk = [ln]
            i += 1
            while i < len(lines) and lines[i].lstrip().startswith("//@") and not lines[i].lstrip().startswith("//@ extract") \
                    and not lines[i].lstrip().startswith("//@ include"):
                blk.append(lines[i]); i += 1
            is_fn = re.search(r"::\s*fn \w+\s*$", blk[0]) is not None
            has_contract = any(re.match(r"\s*//@ (requires|ensures)", b) for b in blk)
            if is_fn and has_contract:
                if variant == "reach":
                    # every contracted function must be able to reach its first statement: `assert(false)` must FAIL
                    blk.append("//@ head proof { assert(false); }")
                elif variant == "negpost":
                    nb, done = [], False
                    k = 0
                    while k < len(blk):
                        b = blk[k]
                        if not done and re.match(r"\s*//@ ensures", b):
                            txt = b.split("ensures", 1)[1]
                            k += 1
                            while k < len(blk) and blk[k].lstrip().startswith("//@|"):
                                txt += "\n" + blk[k].lstrip()[4:]
                                k += 1
                            nb.append("//@ ensures !(" + " ".join(txt.split()).rstrip(",") + ")")
                            done = True
                            continue
                        nb.append(b); k += 1
                    blk = nb
            out.extend(blk)
            continue
        out.append(ln)
        i += 1
    return "\n".join(out)


def contracted_fns(src):
    """names of extracted fns that carry requires/ensures in the template"""
    res = []
    lines = src.split("\n")
    for i, ln in enumerate(lines):
        if ln.lstrip().startswith("//@ extract") and re.search(r"::\s*fn (\w+)\s*$", ln):
            name = re.search(r"::\s*fn (\w+)\s*$", ln).group(1)
            j = i + 1
            c = False
            while j < len(lines) and lines[j].lstrip().startswith("//@") and not lines[j].lstrip().startswith("//@ extract"):
                if re.match(r"\s*//@ (requires|ensures)", lines[j]):
                    c = True
                j += 1
            if c:
                res.append(name)
    return res


def exit_classes(u):
    """colour the contracted functions of a unit so that no two functions in one class mention each
    other: `ensures false` is then injected class by class (a callee's falsified contract must not
    be what makes its caller's guard pass)."""
    tpl = os.path.join(VERIF, "units", u["unit"] + ".vrs")
    try:
        with ASSEMBLE_LOCK:
            _, info = extract.assemble(tpl, REPO)
    except Exception:
        return []
    fns = [i for i in info["items"] if i["kind"] == "fn" and i.get("clauses") and (i["clauses"].get("requires") or i["clauses"].get("ensures"))]
    names = [i["path"].split("fn ")[-1].strip() for i in fns]
    classes = []
    for i, f in enumerate(fns):
        placed = False
        for cls in classes:
            if all(names[j] not in f.get("idents", []) and names[i] not in fns[j].get("idents", []) and names[j] != names[i] for j in cls):
                cls.append(i); placed = True
                break
        if not placed:
            classes.append([i])
    return [[names[i] for i in cls] for cls in classes]


def run_verus_unit(prop, u, workdir, variant="main"):
    """assemble + verify one unit variant; if rustc cannot find a called function, retry once with that helper
    auto-extracted under the contract `result == its own body` (rule R20, expression-bodied helpers only)."""
    res = _run_verus_unit(prop, u, workdir, variant, ())
    if res.get("status") == "tool-error" and res.get("info"):
        missing = sorted(set(re.findall(r"cannot find function `(\w+)` in this scope", res.get("stderr", ""))))
        missing_c = sorted(set(re.findall(r"cannot find value `([A-Z][A-Z0-9_]*)` in this scope", res.get("stderr", ""))))
        files = sorted({i["file"] for i in res["info"]["items"]})
        extra = []
        for nm in missing:
            with ASSEMBLE_LOCK:
                d = extract.auto_helper_directives(REPO, files, nm)
            if d is None:
                return res
            extra.extend(d)
        for nm in missing_c:
            with ASSEMBLE_LOCK:
                d = extract.auto_const_directives(REPO, files, nm)
            if d is None:
                return res
            extra.extend(d)
        missing = missing + missing_c
        if extra:
            res2 = _run_verus_unit(prop, u, workdir, variant, tuple(extra))
            if res2.get("info"):
                res2["info"]["rewrites"].append({"rule": "R20-auto-helper", "before": "call to unlisted helper(s) %s" % ", ".join(missing),
                                                  "after": "extracted with contract `result == own body`: " + " | ".join(extra), "where": "unit-level rule"})
            return res2
    return res


def _run_verus_unit(prop, u, workdir, variant, extra):
    unit = u["unit"]
    tpl = os.path.join(VERIF, "units", unit + ".vrs")
    t0 = time.time()
    res = {"unit": unit, "variant": variant, "status": None, "errors": [], "backend": "verus/z3"}
    try:
        with ASSEMBLE_LOCK:
            text, info = extract.assemble(tpl, REPO, variant=("main" if variant.startswith("seed:") else variant), extra=extra)
    except extract.Lost as e:
        res.update(status="lost-anchor", detail=str(e), wall_s=time.time() - t0)
        return res
    except (extract.TokError, OSError) as e:
        res.update(status="tool-error", detail="extract: %r" % (e,), wall_s=time.time() - t0)
        return res
    vtag = re.sub(r"[^A-Za-z0-9]+", "_", variant)[:40] + ("_" + hashlib.sha1(variant.encode()).hexdigest()[:6] if ":" in variant else "")
    rs = os.path.join(workdir, "%s_%s.rs" % (unit, vtag))
    open(rs, "w", encoding="utf-8").write(text)
    res["assembled"] = rs
    res["info"] = info
    cmd = [VERUS, rs, "--output-json", "--time", "--rlimit", str(u.get("rlimit", 20)), "--triggers-mode", "silent",
           "--multiple-errors", "4", "--num-threads", str(u.get("threads", 8))]
    if variant.startswith("seed:"):
        cmd += ["--smt-option", "smt.random_seed=" + variant[5:]]
    res["cmd"] = " ".join(cmd)
    try:
        p = subprocess.run(cmd, capture_output=True, text=True, timeout=u.get("timeout", 600), cwd=workdir)
    except subprocess.TimeoutExpired:
        res.update(status="timeout", wall_s=time.time() - t0)
        return res
    res["stderr"] = p.stderr
    try:
        js = json.loads(p.stdout)
    except Exception:
        res.update(status="tool-error", detail="verus produced no JSON: " + p.stderr[-2000:], wall_s=time.time() - t0)
        return res
    vr = js.get("verification-results", {})
    res["verified"] = vr.get("verified", 0)
    res["failed"] = vr.get("errors", 0)
    fb = []
    try:
        for m in js["times-ms"]["smt"]["smt-run-module-times"]:
            fb.extend(m.get("function-breakdown", []))
    except Exception:
        pass
    res["functions"] = [{"function": f["function"].split("::", 1)[-1], "mode": f.get("mode:"), "smt_ms": f.get("time-micros", 0) / 1000.0,
                         "rlimit": f.get("rlimit"), "success": f.get("success")} for f in fb]
    res["smt_ms"] = js.get("times-ms", {}).get("smt", {}).get("total", 0)
    errs = parse_verus_errors(p.stderr, info["linemap"], rs)
    res["errors"] = errs
    # `//@ expect_fail NAME` guards: these proof fns restate a theorem's hypotheses with `ensures false`; Verus reports
    # them as errors (they MUST fail); they are removed from the error list and counted as guards
    ef = set(info.get("expect_fail", []))
    if ef and not res["functions"]:
        ef = set()   # Verus stopped before verifying anything (compile error): the guards say nothing, the error decides
    if ef:
        failed_fns = {f["function"].split("::")[-1] for f in res["functions"] if f.get("success") is False}
        res["expect_fail"] = {n: (n in failed_fns) for n in ef}
        ef_lines = set()
        for n in ef:
            m = re.search(r"^.*\bproof fn %s\b" % re.escape(n), text, re.M)
            if m:
                start = text[:m.start()].count("\n") + 1
                # the guard's own extent: from its `proof fn` line to its (empty) body `{}` - NOT a fixed window, which
                # would also swallow a genuine postcondition failure of whatever item follows the guard
                mb = re.compile(r"\{\s*\}").search(text, m.end())
                end = text[:mb.end()].count("\n") + 1 if mb else start + 40
                if end - start > 60:
                    end = start + 40
                ef_lines.update(range(start, end + 1))
        kept = [e for e in errs if not (e["line"] in ef_lines and "postcondition" in e["msg"])]
        dropped = len(errs) - len(kept)
        errs = kept
        res["errors"] = errs
        res["failed"] = max(0, res["failed"] - dropped)
        if all(res["expect_fail"].values()) and not errs and vr.get("errors", 0) == dropped:
            res["status"] = "verified"
            res["wall_s"] = time.time() - t0
            return res
        if not all(res["expect_fail"].values()):
            res["status"] = "tool-error"
            res["detail"] = "vacuity guard (expect_fail) verified: contradictory hypotheses? %s" % res["expect_fail"]
            res["wall_s"] = time.time() - t0
            return res
    if vr.get("success") and not errs:
        res["status"] = "verified"
    elif vr.get("encountered-vir-error") or any(e["msg"].startswith("rustc [E") or (not PROOF_FAIL.search(e["msg"]) and not RLIMIT.search(e["msg"])) for e in errs) or not errs:
        res["status"] = "tool-error"
        res["detail"] = "\n".join(e["msg"] for e in errs)[:2000] or p.stderr[-2000:]
    elif any(PROOF_FAIL.search(e["msg"]) for e in errs):
        res["status"] = "proof-failed"
    else:
        res["status"] = "rlimit"
    res["wall_s"] = time.time() - t0
    return res


def scan_trusted(text):
    """mechanical scan for trusted constructs in an assembled unit"""
    found = []
    text = re.sub(r"//[^\n]*", "", text)
    for m in re.finditer(r"(assume_specification[^;{]*|#\[verifier::external_body\][^{;]*|#\[verifier::external[^\]]*\][^{;]*|\badmit\(\)|\bassume\([^;]*\)|uninterp spec fn [^;]*|axiom fn [^;{]*)", text):
        s = " ".join(m.group(1).split())
        s = s.replace("#[verifier::external_body]", "external_body:")
        found.append(s[:160])
    seen, out = set(), []
    for s in found:
        if s not in seen:
            seen.add(s); out.append(s)
    return out


def write_replay(prop, unit, oid, e, res):
    os.makedirs(os.path.join(VERIF, "replays"), exist_ok=True)
    name = re.sub(r"[^A-Za-z0-9_.-]+", "_", "%s-%s" % (prop, oid))[:150] + ".txt"
    path = os.path.join(VERIF, "replays", name)
    with open(path, "w") as f:
        f.write("property: %s\nunit: %s\nobligation: %s\nverifier: verus (no counterexample model) -> no-failing-input-found\n" % (prop, unit, oid))
        f.write("failed clause: %s\nanchored in: %s\nmessage: %s\n" % (e["snippet"], e["where"], e["msg"]))
        f.write("replay: bin/check --replay %s   (re-assembles unit %s from /repo and re-runs the verifier)\n" % (path, unit))
        f.write("\n---- verifier output ----\n")
        f.write(res.get("stderr", "")[-12000:])
        if res.get("assembled") and os.path.exists(res["assembled"]):
            f.write("\n---- assembled unit (extracted from /repo at check time) ----\n")
            f.write(open(res["assembled"]).read())
    return path


def main(argv):
    if len(argv) >= 2 and argv[0] == "--replay":
        return replay(argv[1])
    prop = argv[0]
    tier = os.environ.get("VERIF_TIER", "quick")
    if "--tier" in argv:
        tier = argv[argv.index("--tier") + 1]
    seed = int(os.environ.get("VERIF_SEED", "0") or 0)
    only_unit = argv[argv.index("--unit") + 1] if "--unit" in argv else None
    keep = "--keep" in argv
    props = load_props()
    if prop not in props:
        print("unknown or unclaimed property %s" % prop)
        return 2
    cfg = props[prop]
    t0 = time.time()
    workdir = os.path.join(VERIF, "work", "%s-%d" % (prop, os.getpid()))
    os.makedirs(workdir, exist_ok=True)
    # a listed finding is identified by its obligation id (unit/function/class/clause hash); a unit that serves two properties
    # reports it in both runs, always under the property it is listed for
    known = [k for k in load_known() if k.get("property") == prop or k.get("obligation", "").split("/")[0] in [u["unit"] for u in cfg.get("verus", [])]]
    results = []
    kres = []
    try:
        jobs = []
        # a unit marked "wip" is under construction: it only runs when asked for by name
        units = [u for u in cfg.get("verus", []) if (u["unit"] == only_unit) or (not only_unit and not u.get("wip"))]
        with cf.ThreadPoolExecutor(max_workers=int(os.environ.get("VERIF_JOBS", "8"))) as ex:
            for u in units:
                jobs.append(ex.submit(run_verus_unit, prop, u, workdir, "main"))
                if not u.get("no_guards"):
                    jobs.append(ex.submit(run_verus_unit, prop, u, workdir, "reach"))
                    for cls in exit_classes(u):
                        jobs.append(ex.submit(run_verus_unit, prop, u, workdir, "exit:" + ",".join(cls)))
                if tier == "thorough":
                    # instability detector: the same unit under other SMT seeds must give the same verdict
                    for sd in (1, 2, 3):
                        jobs.append(ex.submit(run_verus_unit, prop, u, workdir, "seed:%d" % sd))
            kfut = None
            if cfg.get("kani") and not only_unit and not os.environ.get("VERIF_SKIP_KANI"):  # (authoring aid: Verus-only stability runs)
                kfut = ex.submit(kanirun.run_group, prop, cfg["kani"], tier, REPO, VERIF, seed)
            for j in jobs:
                results.append(j.result())
            if kfut:
                kres = kfut.result()
        selftest = []
        if tier == "thorough" and os.path.realpath(REPO) == "/repo" and not only_unit and not os.environ.get("VERIF_NO_SELFTEST"):
            selftest = seed_selftest(prop)
        rc = report(prop, tier, seed, cfg, results, kres, known, t0, selftest)
    finally:
        if not keep:
            shutil.rmtree(workdir, ignore_errors=True)
    return rc


def report(prop, tier, seed, cfg, results, kres, known, t0, selftest=()):
    violations, undecided, known_hits = [], [], []
    known_finding_obligations = 0
    obligations = discharged = 0
    per_fn, items, rewrites, trusted, samples, bounded = [], [], [], [], [], []
    guards = {"reach_expected_fail": 0, "reach_failed_as_required": 0, "exit_expected_fail": 0, "exit_failed_as_required": 0}
    cmds = []
    for r in results:
        unit, variant = r["unit"], r["variant"]
        if variant == "main":
            if r.get("cmd"):
                cmds.append(r["cmd"])
            if r["status"] in ("lost-anchor", "tool-error", "timeout", "rlimit"):
                undecided.append("%s: %s %s" % (unit, r["status"], (r.get("detail") or "")[:600]))
                continue
            info = r["info"]
            items.extend(dict(x, unit=unit) for x in info["items"])
            rewrites.extend(dict(x, unit=unit) for x in info["rewrites"])
            text = open(r["assembled"]).read() if os.path.exists(r.get("assembled", "")) else ""
            for s in scan_trusted(text):
                trusted.append("%s: %s" % (unit, s))
            obligations += r["verified"] + r["failed"]
            discharged += r["verified"]
            for n, ok in (r.get("expect_fail") or {}).items():
                guards["reach_expected_fail"] += 1
                guards["reach_failed_as_required"] += 1 if ok else 0
            for f in r["functions"]:
                per_fn.append(dict(f, unit=unit, backend="verus/z3"))
            if r["status"] == "proof-failed":
                n_before = (len(violations), len(undecided), len(known_hits))
                for e in r["errors"]:
                    if RLIMIT.search(e["msg"]) and not PROOF_FAIL.search(e["msg"]):
                        undecided.append("%s: rlimit in %s" % (unit, e["where"]))
                        continue
                    if e["msg"].startswith("recommendation not met"):
                        continue
                    auto = set()
                    for x in info["rewrites"]:
                        if x.get("rule") == "R20-auto-helper":
                            auto.update(n.strip() for n in x.get("before", "").split("helper(s)")[-1].split(","))
                    if (e["where"] or "").split("fn ")[-1].strip() in auto:
                        # an obligation INSIDE an auto-extracted helper (it has no authored precondition): not a verdict
                        undecided.append("%s: obligation inside auto-extracted helper %s (%s)" % (unit, e["where"], e["msg"]))
                        continue
                    drifted = any(x.get("rule") == "mirror-drift" and x.get("where") == e["where"] for x in info["rewrites"])
                    if drifted and e["msg"].startswith("assertion failed") and re.match(r"assert\s*(\(|forall)", e["snippet"]):
                        # the function's text differs from the authoring-time mirror and what failed is one of OUR
                        # proof hints (a Verus `assert`, not an assertion of the code): the hint may simply no longer
                        # fit the new text. Contract clauses (post/pre-conditions, loop invariants) stay verdicts.
                        undecided.append("%s: proof hint failed in %s after mirror drift (%s)" % (unit, e["where"], e["snippet"][:80]))
                        continue
                    structural = any(x.get("rule") == "mirror-drift" and x.get("where") == e["where"] and x.get("structural") for x in info["rewrites"])
                    if structural and scaffolding_obligation(e, r.get("assembled")):
                        # statements of this function were added / removed / moved relative to the authoring-time mirror, and what
                        # failed is PROOF SCAFFOLDING carried over by position (a loop invariant, a decreases clause, the
                        # precondition of a lemma call): it may simply sit in the wrong place now. Contract obligations of the
                        # code (postconditions, preconditions of executable callees, overflow / bounds / panic) stay verdicts.
                        undecided.append("%s: proof scaffolding failed in %s after STRUCTURAL mirror drift (%s: %s)" % (unit, e["where"], e["msg"], e["snippet"][:80]))
                        continue
                    oid = obligation_id(unit, e)
                    kh = [k for k in known if k.get("obligation") == oid]
                    if kh:
                        known_hits.append((oid, kh[0]))
                        continue
                    path = write_replay(prop, unit, oid, e, r)
                    violations.append((oid, path, "no-failing-input-found", e))
                if (len(violations), len(undecided)) == n_before[:2] and len(known_hits) > n_before[2]:
                    # every failing clause of this run is a LISTED known finding: the functions concerned are accounted as
                    # discharged-except-for-the-listed-clause; the listed clauses are reported on their own (KNOWN-FINDING lines,
                    # coverage.known_findings_reported / known_finding_obligations) and are NOT part of the obligations count
                    discharged += r["failed"]
                    known_finding_obligations += len(known_hits) - n_before[2]
        elif variant.startswith("seed:"):
            main = [m for m in results if m["unit"] == unit and m["variant"] == "main"]
            if main and main[0]["status"] != r["status"]:
                undecided.append("%s: UNSTABLE proof - verdict `%s` under SMT seed %s but `%s` under the default seed" % (unit, r["status"], variant[5:], main[0]["status"]))
            guards.setdefault("seed_runs", 0); guards["seed_runs"] += 1
        else:
            if r["status"] in ("lost-anchor", "tool-error"):
                undecided.append("%s[%s guard]: %s %s" % (unit, variant, r["status"], (r.get("detail") or "")[:300]))
                continue
            if r["status"] == "timeout":
                continue
            want = [i["path"].split("fn ")[-1].strip() for i in r["info"]["items"]
                    if i["kind"] == "fn" and i.get("clauses") and (i["clauses"].get("requires") or i["clauses"].get("ensures"))]
            if variant.startswith("exit:"):
                want = [w for w in want if w in variant[5:].split(",")]
                variant = "exit"
            failed_fns = {f["function"].split("::")[-1] for f in r.get("functions", []) if f.get("success") is False}
            # errors carry `where`
            failed_where = {(e["where"] or "").split("fn ")[-1].strip() for e in r.get("errors", [])}
            for w in want:
                guards[variant + "_expected_fail"] += 1
                if w in failed_fns or w in failed_where:
                    guards[variant + "_failed_as_required"] += 1
                else:
                    undecided.append("%s: vacuity guard `%s` did not fail for fn %s (contradictory precondition or inconsistent callee contract?)" % (unit, variant, w))
    # kani
    for k in kres:
        cmds.append(k.get("cmd", ""))
        if k["status"] == "undecided":
            undecided.append("kani %s: %s" % (k["harness"], k.get("detail", "")[:300]))
            continue
        if k.get("bounded"):
            bounded.append({"harness": k["harness"], "bound": k["bounded"], "result": k["status"], "checks": k.get("checks", 0)})
        else:
            obligations += 1
            if k["status"] == "success":
                discharged += 1
        per_fn.append({"function": k["harness"], "backend": "kani/cbmc", "smt_ms": k.get("wall_s", 0) * 1000.0, "success": k["status"] == "success",
                       "checks": k.get("checks", 0), "covers": k.get("covers", ""), "bounded": k.get("bounded")})
        trusted.extend("kani %s: %s" % (k["harness"], s) for s in k.get("stubs", []))
        if k["status"] == "failure":
            oid = "kani/%s/%s" % (k["harness"], re.sub(r"[^A-Za-z0-9]+", "-", k.get("failed_check", "check"))[:60])
            kh = [x for x in known if x.get("obligation", "").startswith("kani/%s" % k["harness"])]
            if kh:
                known_hits.append((oid, kh[0]))
                if not k.get("bounded"):
                    obligations -= 1   # a recorded finding is not an open obligation of the unchanged tree
                continue
            path = kanirun.write_replay(VERIF, prop, k)
            violations.append((oid, path, "" if k.get("replayed") else "no-failing-input-found", {"msg": k.get("failed_check", ""), "snippet": k.get("witness", ""), "where": k["harness"]}))
    # thorough tier: stored breaking changes that the check is recorded to detect must still be detected
    for st in selftest:
        if not st["detected"]:
            undecided.append("self-test: seeded change %s (recorded as DETECTED) is no longer reported: rc=%s" % (st["seed"], st["rc"]))
    # samples
    for r in results:
        if r["variant"] == "main" and r["status"] in ("verified", "proof-failed"):
            for it in r["info"]["items"]:
                if it.get("clauses") and (it["clauses"].get("ensures") or it["clauses"].get("requires")):
                    samples.append({"unit": r["unit"], "function": it["path"], "file": it["file"], "lines": it["lines"],
                                    "clauses": it["clauses"], "sha256": it["sha256"][:16]})
    samples = samples[:12] + [{"kani_harness": k["harness"], "covers": k.get("covers", ""), "status": k["status"]} for k in kres[:8]]
    for oid, k in known_hits:
        # the finding is reported under the property it is listed for (a unit can serve two properties)
        print("KNOWN-FINDING: property=%s %s" % (k.get("property", prop), re.sub(r"^property=\S+\s+", "", k["_text"])))
    for oid, path, tail, e in violations:
        print("obligation failed: %s  [%s]  clause: %s" % (oid, e["msg"], e["snippet"][:160]))
        print(("VIOLATION property=%s replay=%s %s" % (prop, path, tail)).rstrip())
    for u in undecided:
        print("UNDECIDED: %s" % u)
    wall = time.time() - t0
    ev = {
        "property_id": prop, "tier": tier, "seed": seed, "level": "proof",
        "coverage": {
            "obligations": obligations, "discharged": discharged,
            "checker_cmd": " ; ".join(c for c in cmds if c)[:4000],
            "trusted_base": sorted(set(trusted)),
            "functions_under_contract": [{"unit": i["unit"], "file": i["file"], "path": i["path"], "lines": i["lines"], "sha256": i["sha256"], "clauses": i.get("clauses", {})}
                                         for i in items if i["kind"] == "fn"],
            "types_and_consts_extracted": [{"unit": i["unit"], "file": i["file"], "path": i["path"], "sha256": i["sha256"][:16]} for i in items if i["kind"] != "fn"],
            "per_function": per_fn,
            "extraction_rewrites": rewrites,
            "bounded": bounded,
            "vacuity_guards": guards,
            "samples": samples or [{"note": "no obligations ran"}],
            "known_findings_reported": [k["_text"] for _, k in known_hits],
            "known_finding_obligations": known_finding_obligations,
            "seeded_change_selftest": list(selftest),
            "undecided": undecided,
            "explanation": "obligations = Verus verification conditions per function/lemma/spec-termination (one per item reported by Verus) + complete Kani harnesses; bounded Kani stand-ins are listed under `bounded` and never counted. A contract clause listed in known_findings.txt as `finding:` FAILS by design: it is reported as KNOWN-FINDING, counted in known_finding_obligations, and is not part of obligations/discharged (the function carrying it is counted as discharged only if every other clause of it verified).",
        },
        "assumptions": cfg.get("assumptions", []) + sorted(set(trusted)),
        "wall_s": round(wall, 2),
        "violations": len(violations),
    }
    # evidence of record is only written for runs against /repo itself; authoring runs against a
    # scratch copy (VERIF_REPO=...) go to work/ so they can never be committed by accident
    evdir = os.path.join(VERIF, "evidence") if os.path.realpath(REPO) == "/repo" and "--unit" not in sys.argv else os.path.join(VERIF, "work", "evidence-scratch")
    os.makedirs(evdir, exist_ok=True)
    with open(os.path.join(evdir, prop + ".json"), "w") as f:
        json.dump(ev, f, indent=1)
    print("%s tier=%s obligations=%d discharged=%d bounded=%d guards=%s wall=%.1fs" % (prop, tier, obligations, discharged, len(bounded), guards, wall))
    if violations:
        return 1
    if undecided or obligations == 0:
        return 2
    return 0


def seed_selftest(prop):
    """thorough tier: re-apply every stored seeded change of this property that is recorded as DETECTED (seeded/<id>/detect.json)
    to a scratch copy of /repo and run the quick check against it; it must still end in a VIOLATION."""
    out = []
    sd = os.path.join(VERIF, "seeded")
    for name in sorted(os.listdir(sd)):
        d = os.path.join(sd, name)
        try:
            meta = json.load(open(os.path.join(d, "meta.json")))
            det = json.load(open(os.path.join(d, "detect.json")))
        except Exception:
            continue
        if meta.get("property") != prop or not str(det.get("verdict", "")).startswith("DETECTED"):
            continue
        scratch = kanirun.make_scratch(REPO)
        try:
            p = subprocess.run(["patch", "-p1", "-s", "-i", os.path.join(d, "patch.diff")], cwd=scratch, capture_output=True, text=True)
            if p.returncode != 0:
                out.append({"seed": name, "detected": False, "rc": "patch does not apply"})
                continue
            env = dict(os.environ, VERIF_REPO=scratch, VERIF_NO_SELFTEST="1")
            q = subprocess.run([sys.executable, os.path.abspath(__file__), prop, "--tier", "quick"], capture_output=True, text=True, env=env, timeout=3600)
            out.append({"seed": name, "detected": q.returncode == 1 and "VIOLATION property=%s" % prop in q.stdout, "rc": q.returncode,
                        "obligations": re.findall(r"obligation failed: (\S+)", q.stdout)[:4]})
        except subprocess.TimeoutExpired:
            out.append({"seed": name, "detected": False, "rc": "timeout"})
        finally:
            shutil.rmtree(scratch, ignore_errors=True)
    return out


def replay(path):
    txt = open(path).read()
    m = re.search(r"^property: (\S+)", txt, re.M)
    mu = re.search(r"^unit: (\S+)", txt, re.M)
    if not m:
        print("not a replay file")
        return 2
    if mu and not mu.group(1).startswith("kani"):
        return main([m.group(1), "--unit", mu.group(1)])
    return main([m.group(1)])


if __name__ == "__main__":
    sys.exit(main(sys.argv[1:]))
