"""Mechanical extractor + contract splicer.

A *unit template* (units/<unit>.vrs) is a Verus source file in which blocks of `//@` directive
lines are replaced, on every run, by items copied **verbatim by byte span** from /repo's
current working tree, with contracts spliced in at syntactic positions (after the signature,
after a loop header, before/after a statement found by token match).

Nothing but the closed list of rewrite rules below ever changes a token of extracted code;
every application of a rule is logged (rule id, before, after) and ends up in the evidence.
A missing/ambiguous anchor raises Lost (driver exit 2: undecided, never an alarm).
"""
import hashlib
import os
import re
from rtok import tokenize, match_groups, Tok, TokError


class Lost(Exception):
    """An anchor (item, loop ordinal, statement text) could not be located uniquely."""


ITEM_KW = {"fn", "struct", "enum", "union", "impl", "mod", "const", "static", "type", "trait",
           "use", "macro_rules", "extern"}
MODIFIERS = {"pub", "unsafe", "async", "default"}


class Item:
    def __init__(self, kind, name, start, end, kw, body_open=None, body_close=None, header=None):
        self.kind, self.name = kind, name
        self.start, self.end = start, end          # token indices [start, end)
        self.kw = kw
        self.body_open, self.body_close = body_open, body_close
        self.header = header                        # for impl: (trait_name or None, type_name)

    def __repr__(self):
        return "Item(%s %s)" % (self.kind, self.name)


class SourceFile:
    def __init__(self, path):
        self.path = path
        with open(path, encoding="utf-8") as f:
            self.src = f.read()
        self.toks = tokenize(self.src)
        self.groups = match_groups(self.toks)

    def text(self, a, b):
        """verbatim source text of tokens [a, b)"""
        return self.src[self.toks[a].start:self.toks[b - 1].end]

    def line_of(self, tokidx):
        return self.src.count("\n", 0, self.toks[tokidx].start) + 1

    # ---- item parsing -------------------------------------------------------------------
    def skip_group(self, i):
        return self.groups[i] + 1

    def items(self, lo, hi):
        """parse the item list in token range [lo, hi)"""
        T = self.toks
        out = []
        i = lo
        while i < hi:
            start = i
            # attributes
            while i < hi and T[i].text == "#":
                j = i + 1
                if T[j].text == "!":
                    j += 1
                if T[j].text != "[":
                    raise TokError("odd attribute at %d" % T[i].start)
                i = self.skip_group(j)
            if i >= hi:
                break
            # modifiers
            while i < hi:
                t = T[i]
                if t.text == "pub":
                    i += 1
                    if i < hi and T[i].text == "(":
                        i = self.skip_group(i)
                elif t.text in ("unsafe", "async", "default"):
                    i += 1
                elif t.text == "const" and T[i + 1].text in ("fn", "unsafe", "async", "extern"):
                    i += 1
                elif t.text == "extern" and T[i + 1].kind == "str" and T[i + 2].text == "fn":
                    i += 2
                else:
                    break
            t = T[i]
            kw = i
            if t.kind == "id" and T[i + 1].text == "!" and t.text not in ITEM_KW | {"macro_rules"}:
                # item-position macro invocation  name! {..} / name!(..);
                j = i + 2
                if T[j].kind == "id":
                    j += 1
                e = self.skip_group(j)
                if e < hi and T[e].text == ";":
                    e += 1
                out.append(Item("macro", t.text, start, e, kw))
                i = e
                continue
            if t.text == "macro_rules":
                j = i + 3
                e = self.skip_group(j)
                if e < hi and T[e].text == ";":
                    e += 1
                out.append(Item("macro_rules", T[i + 2].text, start, e, kw))
                i = e
                continue
            if t.text not in ITEM_KW:
                raise TokError("unexpected token %r at item position (offset %d, %s)" % (t.text, t.start, self.path))
            kind = t.text
            if kind in ("fn", "struct", "enum", "union", "mod", "trait", "type", "const", "static"):
                name = T[i + 1].text
                if kind in ("const", "static") and name == "mut":
                    name = T[i + 2].text
            else:
                name = None
            # find end: first `{` or `;` at depth 0
            j = i + 1
            body_open = body_close = None
            while j < hi:
                tt = T[j].text
                if tt in ("(", "["):
                    j = self.skip_group(j)
                    continue
                if tt == "{":
                    if kind in ("const", "static", "type", "use"):
                        j = self.skip_group(j)
                        continue
                    body_open, body_close = j, self.groups[j]
                    j = body_close + 1
                    break
                if tt == ";":
                    j += 1
                    break
                j += 1
            header = None
            if kind == "impl":
                header = self._impl_header(kw, body_open)
                name = (header[0] + " for " if header[0] else "") + header[1]
            if kind == "extern":
                name = "extern"
            out.append(Item(kind, name, start, j, kw, body_open, body_close, header))
            i = j
        return out

    def _skip_angles(self, i):
        """T[i] is '<': return index after the matching '>'"""
        T = self.toks
        depth = 0
        while True:
            tt = T[i].text
            if tt in ("(", "[", "{"):
                i = self.skip_group(i)
                continue
            if tt == "<":
                depth += 1
            elif tt == ">":
                depth -= 1
            elif tt == ">>":
                depth -= 2
            elif tt == "<<":
                depth += 2
            i += 1
            if depth <= 0:
                return i

    def _impl_header(self, kw, body_open):
        T = self.toks
        i = kw + 1
        if T[i].text == "<":
            i = self._skip_angles(i)
        # collect path idents up to `for` / `where` / body
        def read_type(i):
            last = None
            while i < body_open and T[i].text not in ("for", "where"):
                if T[i].text == "<":
                    i = self._skip_angles(i)
                    continue
                if T[i].text in ("(", "["):
                    if last is None:
                        last = self.text(i, self.groups[i] + 1)
                    i = self.skip_group(i)
                    continue
                if T[i].kind == "id" and T[i].text not in ("dyn", "mut", "const"):
                    last = T[i].text
                i += 1
            return last, i
        first, i = read_type(i)
        if i < body_open and T[i].text == "for":
            second, i = read_type(i + 1)
            return (first, second)
        return (None, first)


_FILES = {}


def load(path):
    st = os.stat(path)
    key = (path, st.st_mtime_ns, st.st_size)
    if key not in _FILES:
        _FILES[key] = SourceFile(path)
    return _FILES[key]


def find_item(sf, segs):
    """segs: list of strings like 'impl PendingTx', 'fn radix_sort', 'mod x'.
    Returns (chain of enclosing Items..., Item)."""
    def rec(lo, hi, segs, chain):
        seg = segs[0].split(None, 1)
        kind, name = seg[0], (seg[1].strip() if len(seg) > 1 else None)
        found = []
        for it in sf.items(lo, hi):
            if it.kind != kind:
                continue
            if kind == "impl":
                want = " ".join(name.split())
                if it.name != want:
                    continue
            elif it.name != name:
                continue
            if len(segs) == 1:
                found.append(chain + [it])
            else:
                if it.body_open is None:
                    continue
                if it.kind == "fn":
                    # nested fn item inside a function body (R5 hoisting): scan the body tokens
                    nk, nn = segs[1].split(None, 1)
                    if nk != "fn" or len(segs) != 2:
                        raise Lost("only `fn` items can be addressed inside a fn body")
                    T = sf.toks
                    for k in range(it.body_open + 1, it.body_close):
                        if T[k].text == "fn" and T[k].kind == "id" and T[k + 1].text == nn.strip():
                            j = k
                            while T[j].text != "{":
                                j = sf.skip_group(j) if T[j].text in ("(", "[") else j + 1
                            found.append(chain + [it, Item("fn", nn.strip(), k, sf.groups[j] + 1, k, j, sf.groups[j])])
                    continue
                found.extend(rec(it.body_open + 1, it.body_close, segs[1:], chain + [it]))
        return found
    res = rec(0, len(sf.toks), segs, [])
    if len(res) != 1:
        raise Lost("item %s :: %s found %d times" % (sf.path, " :: ".join(segs), len(res)))
    return res[0]


# ------------------------------------------------------------------------------------------
# Text editing by token span
# ------------------------------------------------------------------------------------------
class Edits:
    def __init__(self, base):
        self.base = base
        self.eds = []   # (start_off, end_off, text, order)

    def insert(self, off, text):
        self.eds.append((off, off, text, len(self.eds)))

    def replace(self, a, b, text):
        self.eds.append((a, b, text, len(self.eds)))

    def apply(self):
        s = self.base
        # insertions at the same offset keep their registration order
        eds = sorted(self.eds, key=lambda e: (e[0], e[1], e[3]))
        for a, b, _, _ in eds:
            pass
        out, pos = [], 0
        for a, b, text, _ in eds:
            if a < pos:
                raise Lost("overlapping edits at offset %d" % a)
            out.append(s[pos:a]); out.append(text); pos = b
        out.append(s[pos:])
        return "".join(out)


# ------------------------------------------------------------------------------------------
# Rewrite rules (closed list).  Each works on a standalone item text and returns new text,
# appending (rule, before, after) records to `log`.
# ------------------------------------------------------------------------------------------
DROP_ATTRS = ("inline", "must_use", "allow", "track_caller", "cfg_attr", "doc", "cold", "expect",
              "deprecated", "non_exhaustive", "warn", "deny", "rustfmt", "clippy", "error", "from", "source", "serde")
DROP_DERIVES = ("Error", "Serialize", "Deserialize")
ENDIAN = {"to_le_bytes": "shim_to_le_bytes", "to_be_bytes": "shim_to_be_bytes",
          "from_le_bytes": "shim_from_le_bytes", "from_be_bytes": "shim_from_be_bytes"}


def eval_cfg(toks, cfgset):
    """evaluate a cfg predicate (token list) under the stated configuration: `cfgset` names are
    true, every `feature = "..."` is false, `test`/`kani` false."""
    pos = [0]

    def pred():
        t = toks[pos[0]]
        name = t.text
        pos[0] += 1
        if pos[0] < len(toks) and toks[pos[0]].text == "(":
            pos[0] += 1
            args = []
            while toks[pos[0]].text != ")":
                args.append(pred())
                if toks[pos[0]].text == ",":
                    pos[0] += 1
            pos[0] += 1
            if name == "any":
                return any(args)
            if name == "all":
                return all(args)
            if name == "not":
                return not args[0]
            raise Lost("unknown cfg combinator %s" % name)
        if pos[0] < len(toks) and toks[pos[0]].text == "=":
            val = toks[pos[0] + 1].text.strip('"')
            pos[0] += 2
            # feature = "x", target_os = "y", ... : none enabled unless the unit states it (`//@ cfg feature=x`)
            return ("%s=%s" % (name, val)) in cfgset
        return name in cfgset
    return pred()


def _attr_spans(toks, groups):
    """yield (i_hash, i_close, name) for each outer attribute"""
    for i, t in enumerate(toks):
        if t.text == "#" and i + 1 < len(toks) and toks[i + 1].text == "[":
            c = groups[i + 1]
            yield i, c, toks[i + 2].text


SEQ_REWRITES = []   # (rule, [tokens...], replacement_text) registered per unit by `//@ r3`
BSTR_DEFS = {}      # R13: byte-string literal -> generated constant name (per unit)
BSTR_EMITTED = set()


def bstr_name(lit):
    body = lit[lit.index('"') + 1:-1]
    name = re.sub(r"[^A-Za-z0-9]+", "_", body.replace("\\0", "_0")).strip("_")
    return "BSTR_" + (name or "EMPTY") + "_" + hashlib.sha256(lit.encode()).hexdigest()[:4]


def register_r3(repo, spec, log):
    """//@ r3 <accessor path> | <expected body> | <struct path> | f1,f2 | <FieldType> | <method> | <replacement>
    Rule R3: a one-line accessor returning `impl Iterator` is inlined at call sites `.field.method()`.
    Mechanical side conditions re-checked on every run: the accessor body in /repo is exactly the
    expected expression, and each listed field of the struct has the stated type."""
    parts = [x.strip() for x in spec.split("|")]
    if len(parts) != 7:
        raise Lost("bad r3 directive: %s" % spec)
    acc, body, st, fields, ftype, method, repl = parts
    ap = [x.strip() for x in acc.split("::")]
    sf = load(os.path.join(repo, ap[0]))
    it = find_item(sf, ap[1:])[-1]
    fa = FnAnatomy(sf.text(it.start, it.end))
    got = " ".join(t.text for t in fa.toks[fa.body_open + 1:fa.body_close])
    want = " ".join(t.text for t in tokenize(body))
    if got != want:
        raise Lost("R3 side condition failed: body of %s is `%s`, expected `%s`" % (acc, got, want))
    sp = [x.strip() for x in st.split("::")]
    sf2 = load(os.path.join(repo, sp[0]))
    sit = find_item(sf2, sp[1:])[-1]
    T = sf2.toks
    for f in fields.split(","):
        f = f.strip()
        ok = False
        for i in range(sit.body_open + 1, sit.body_close - 2):
            if T[i].text == f and T[i + 1].text == ":" and T[i + 2].text == ftype and T[i + 3].text in (",", "}"):
                ok = True
        if not ok:
            raise Lost("R3 side condition failed: field %s of %s is not of type %s" % (f, st, ftype))
        SEQ_REWRITES.append(("R3-inline-accessor", [".", f, ".", method, "(", ")"], ".%s.%s()" % (f, repl)))
    log.append({"rule": "R3-inline-accessor", "before": "%s (body `%s`) on fields %s: %s of %s" % (acc, got, fields, ftype, st),
                "after": ".<field>.%s()  ->  .<field>.%s()" % (method, repl), "where": "unit-level rule"})


def rule_r2(text, var, log):
    """R2: reference pattern `&v` in a pattern -> `v`, later uses of `v` -> `(*v)` (Copy scalars only;
    Verus does not support reference patterns).  Type errors surface in rustc."""
    T = tokenize(text)
    ed = Edits(text)
    start = None
    for i, t in enumerate(T):
        if t.text == "&" and i + 1 < len(T) and T[i + 1].text == var and T[i + 1].kind == "id" and i > 0 and T[i - 1].text in ("(", ","):
            start = i
            break
    if start is None:
        raise Lost("R2: pattern `&%s` not found" % var)
    ed.replace(T[start].start, T[start].end, "")
    n = 0
    for j in range(start + 2, len(T)):
        if T[j].text == var and T[j].kind == "id" and T[j - 1].text not in (".", "::"):
            ed.replace(T[j].start, T[j].end, "(*%s)" % var); n += 1
    log.append({"rule": "R2-ref-pattern", "before": "&%s (pattern), %d later uses of %s" % (var, n, var), "after": "%s, (*%s)" % (var, var)})
    return ed.apply()


R13_ACTIVE = [False]
RUNTIME_ASSERT = [False]   # `//@ runtime_assert`: release-mode assert!/assert_eq! are run-time guards (panic = no return), not proof obligations


def rule_pass(text, log, cfgset):
    toks = tokenize(text)
    groups = match_groups(toks)
    ed = Edits(text)

    def rec(rule, a, b, new):
        log.append({"rule": rule, "before": text[a:b], "after": new})
        ed.replace(a, b, new)

    consumed = set()
    gate_n = [0]
    n = len(toks)
    # R6 attributes
    for i, c, name in _attr_spans(toks, groups):
        if name in DROP_ATTRS:
            rec("R6-drop-attr", toks[i].start, toks[c].end, "")
            consumed.update(range(i, c + 1))
        elif name == "cfg" and toks[i + 3].text == "(":
            inner = toks[i + 4:groups[i + 3]]
            if eval_cfg(inner, cfgset):
                rec("R6-cfg-true", toks[i].start, toks[c].end, "")
                consumed.update(range(i, c + 1))
            else:
                # cfg-false element: remove the attribute(s) and the element they apply to, when that
                # element is a field / struct-literal field / simple statement (ends at `,` or `;` at
                # the same nesting depth, or at the enclosing closing delimiter)
                j = c + 1
                while j < n and toks[j].text == "#" and toks[j + 1].text == "[":
                    j = groups[j + 1] + 1
                if toks[j].text == "{":
                    # a cfg-false block STATEMENT `#[cfg(..)] { .. }`: the whole block is not compiled in the stated
                    # configuration - remove attribute(s) and block
                    k = groups[j] + 1
                    rec("R6-cfg-false-block", toks[i].start, toks[k - 1].end, "")
                    consumed.update(range(i, k))
                    continue
                if toks[j].text in ("if", "for", "while", "match", "loop", "fn", "impl", "mod"):
                    raise Lost("cfg-false block element inside an extracted item (%s): not supported" % text[toks[i].start:toks[c].end])
                k = j
                while k < n:
                    tt = toks[k].text
                    if tt in ("(", "[", "{"):
                        k = groups[k] + 1
                        continue
                    if tt in (",", ";"):
                        k += 1
                        break
                    if tt in (")", "]", "}"):
                        break
                    k += 1
                rec("R6-cfg-false-element", toks[i].start, toks[k - 1].end, "")
                consumed.update(range(i, k))
        elif name == "derive" and toks[i + 3].text == "(":
            o, cl = i + 3, groups[i + 3]
            ents, st, j = [], o + 1, o + 1
            while j <= cl:
                if j == cl or toks[j].text == ",":
                    if j > st:
                        ents.append((st, j))
                    st = j + 1
                j += 1
            keep = [text[toks[a].start:toks[b - 1].end] for a, b in ents if toks[b - 1].text not in DROP_DERIVES]
            if len(keep) != len(ents):
                rec("R6-derive-filter", toks[i].start, toks[c].end, "#[derive(%s)]" % ", ".join(keep))
                consumed.update(range(i, c + 1))
    for i, t in enumerate(toks):
        if i in consumed:
            continue
        for rname, seq, repl in SEQ_REWRITES:
            if t.text == seq[0] and i + len(seq) <= n and all(toks[i + k].text == seq[k] for k in range(len(seq))):
                rec(rname, t.start, toks[i + len(seq) - 1].end, repl)
                consumed.update(range(i, i + len(seq)))
                break
        if i in consumed:
            continue
        # R13 byte-string literals inside function bodies -> named opaque constants (their contents
        # are opaque to Verus either way; a name lets the spec refer to "the same bytes")
        if t.kind == "str" and t.text.startswith('b"') and R13_ACTIVE[0]:
            nm = bstr_name(t.text)
            BSTR_DEFS[nm] = t.text
            rec("R13-bytestr-literal", t.start, t.end, nm)
            continue
        # R16 `for (I, PAT) in EXPR.enumerate() {` -> counter variable (std: enumerate yields (count, item), count from 0)
        if t.text == "for" and t.kind == "id" and i + 3 < n and toks[i + 1].text == "(" and toks[i + 2].kind == "id" and toks[i + 3].text == ",":
            pc = groups[i + 1]
            if toks[pc + 1].text == "in":
                j = pc + 2
                while toks[j].text != "{":
                    j = groups[j] + 1 if toks[j].text in ("(", "[") else j + 1
                if j - 4 > pc and [x.text for x in toks[j - 4:j]] == [".", "enumerate", "(", ")"]:
                    idx = toks[i + 2].text
                    cnt = "shim_enum_" + idx
                    pat = text[toks[i + 4].start:toks[pc - 1].end]
                    rec("R16-enumerate", toks[i + 1].start, toks[pc].end, pat)
                    rec("R16-enumerate", toks[j - 4].start, toks[j - 1].end, "")
                    ed.insert(t.start, "let mut %s: usize = 0;\n" % cnt)
                    ed.insert(toks[j].end, " let %s = %s; %s += 1;" % (idx, cnt, cnt))
                    consumed.update(range(i + 1, pc + 1)); consumed.update(range(j - 4, j))
        # R2b wildcard closure parameter `|_|` -> `|_w|` (Verus: only variables are supported there)
        if t.text == "|" and i + 2 < n and toks[i + 1].text == "_" and toks[i + 2].text == "|":
            rec("R2b-closure-wildcard", toks[i + 1].start, toks[i + 1].end, "_w")
        # ... also as the first / last of several closure parameters: `|_, x|`, `|x, _|`
        if t.text == "|" and i + 2 < n and toks[i + 1].text == "_" and toks[i + 2].text == "," and (i == 0 or toks[i - 1].text in ("(", ",", "=")):
            rec("R2b-closure-wildcard", toks[i + 1].start, toks[i + 1].end, "_w1")
        if t.text == "," and i + 2 < n and toks[i + 1].text == "_" and toks[i + 2].text == "|" and any(toks[k].text == "|" for k in range(max(0, i - 6), i)):
            rec("R2b-closure-wildcard", toks[i + 1].start, toks[i + 1].end, "_w2")
        # R1 endian conversions -> trait shims (pure method rename)
        if t.kind == "id" and t.text in ENDIAN and i + 1 < n and toks[i + 1].text == "(" and i > 0 and toks[i - 1].text in (".", "::"):
            rec("R1-endian-shim", t.start, t.end, ENDIAN[t.text])
        # visibility pub(super)/pub(in ..) -> pub(crate)
        if t.text == "pub" and i + 1 < n and toks[i + 1].text == "(" and toks[i + 2].text in ("super", "in"):
            c = groups[i + 1]
            rec("R6-vis", toks[i + 1].start, toks[c].end, "(crate)")
        # R7 assertion messages
        if t.kind == "id" and t.text in ("debug_assert", "assert", "unreachable", "panic", "debug_assert_eq", "assert_eq", "debug_assert_ne", "assert_ne") \
                and i + 2 < n and toks[i + 1].text == "!" and toks[i + 2].text == "(":
            o, c = i + 2, groups[i + 2]
            # split top-level commas
            parts, start, j = [], o + 1, o + 1
            while j < c:
                if toks[j].text in ("(", "[", "{"):
                    j = groups[j] + 1
                    continue
                if toks[j].text == ",":
                    parts.append((start, j)); start = j + 1
                j += 1
            if start < c:
                parts.append((start, c))
            def ptxt(p):
                return text[toks[p[0]].start:toks[p[1] - 1].end]
            if t.text == "assert" and RUNTIME_ASSERT[0]:
                rec("R7-runtime-assert", t.start, toks[c].end, "shim_runtime_assert(%s)" % ptxt(parts[0]))
            elif t.text in ("debug_assert", "assert"):
                if len(parts) > 1:
                    rec("R7-assert-msg", toks[parts[0][1]].start, toks[c].start, "")
            elif t.text in ("unreachable", "panic"):
                if parts:
                    rec("R7-assert-msg", toks[o].end, toks[c].start, "")
            else:
                op = "==" if t.text.endswith("_eq") else "!="
                base = "debug_assert" if t.text.startswith("debug_") else "assert"
                if len(parts) >= 2 and base == "assert" and RUNTIME_ASSERT[0]:
                    rec("R7-runtime-assert", t.start, toks[c].end, "shim_runtime_assert((%s) %s (%s))" % (ptxt(parts[0]), op, ptxt(parts[1])))
                elif len(parts) >= 2:
                    rec("R7-assert-eq", t.start, toks[c].end,
                        "%s!((%s) %s (%s))" % (base, ptxt(parts[0]), op, ptxt(parts[1])))
        # R18 guarded match used as an early-return gate:
        #     match S { P if G => {} _ => return X, }   ->   let shim_gate_N = match S { P if G => true, _ => false }; if !shim_gate_N { return X; }
        # (same control flow; Verus loses track of `&mut` places when a `return` sits in an arm after a GUARDED arm)
        if t.text == "match" and t.kind == "id":
            j = i + 1
            while j < n and toks[j].text != "{":
                j = groups[j] + 1 if toks[j].text in ("(", "[") else j + 1
            if j < n:
                o, c = j, groups[j]
                # first arm: tokens up to the first top-level `=>`
                k = o + 1
                has_if = False
                while k < c and toks[k].text != "=>":
                    if toks[k].text in ("(", "[", "{"):
                        k = groups[k] + 1
                        continue
                    if toks[k].text == "if" and toks[k].kind == "id":
                        has_if = True
                    k += 1
                if has_if and k + 2 < c and toks[k + 1].text == "{" and groups[k + 1] == k + 2:
                    q = k + 3
                    if toks[q].text == ",":
                        q += 1
                    if q + 2 < c and toks[q].text == "_" and toks[q + 1].text == "=>" and toks[q + 2].text == "return":
                        e = c - 1
                        if toks[e].text == ",":
                            e -= 1
                        if not any(toks[x].text in ("=>",) for x in range(q + 3, e + 1)):
                            ret = text[toks[q + 3].start:toks[e].end] if e >= q + 3 else ""
                            gate_n[0] += 1
                            gate = "shim_gate_%d" % gate_n[0]
                            whole = text[t.start:toks[c].end]
                            arm1 = text[toks[o + 1].start:toks[k].end]
                            stmt_end = toks[c].end
                            new_txt = "let %s = %s{ %s true, _ => false }; if !%s { return %s; }" % (gate, text[t.start:toks[o].start], arm1, gate, ret)
                            rec("R18-guarded-match-gate", t.start, stmt_end, new_txt)
                            consumed.update(range(i, c + 1))
                            continue
        # R19 `flag |= EXPR;` (bool accumulate; Verus rejects `|` on bools):  ->  { let shim_or = EXPR; flag = flag || shim_or; }
        # EXPR is still evaluated unconditionally, exactly once; a non-bool `flag` no longer type-checks (exit 2, never a pass)
        if t.text == "|=" and i >= 1 and toks[i - 1].kind == "id" and (i < 2 or toks[i - 2].text in (";", "{", "}")):
            k = i + 1
            while k < n and toks[k].text != ";":
                k = groups[k] + 1 if toks[k].text in ("(", "[", "{") else k + 1
            if k < n:
                flag = toks[i - 1].text
                expr = text[toks[i + 1].start:toks[k - 1].end]
                rec("R19-bool-or-assign", toks[i - 1].start, toks[k].end, "{ let shim_or = %s; %s = %s || shim_or; }" % (expr, flag, flag))
                consumed.update(range(i - 1, k + 1))
                continue
        # R9 full-range slicing of a place:  &X[..] / &mut X[..]
        if t.text == "&" and i + 1 < n:
            j = i + 1
            is_mut = toks[j].text == "mut"
            if is_mut:
                j += 1
            k = j
            # place expression: ident (. ident)*
            if k < n and toks[k].kind == "id":
                k += 1
                while k + 1 < n and toks[k].text == "." and toks[k + 1].kind in ("id", "num"):
                    k += 2
                if k + 2 < n and toks[k].text == "[" and toks[k + 1].text == ".." and toks[k + 2].text == "]":
                    place = text[toks[j].start:toks[k - 1].end]
                    rec("R9-full-slice", t.start, toks[k + 2].end,
                        "%s.%s()" % (place, "as_mut_slice" if is_mut else "as_slice"))
    return ed.apply()


# ------------------------------------------------------------------------------------------
# Function anatomy
# ------------------------------------------------------------------------------------------
class FnAnatomy:
    """Token positions inside a standalone fn item text."""

    def __init__(self, text):
        self.text = text
        self.toks = T = tokenize(text)
        self.groups = G = match_groups(T)
        i = 0
        while i < len(T) and not (T[i].text == "fn" and T[i].kind == "id"):
            if T[i].text in ("(", "[", "{"):
                i = G[i] + 1
            else:
                i += 1
        if i >= len(T):
            raise Lost("no fn keyword in item")
        self.fn_kw = i
        self.name = T[i + 1].text
        j = i + 2
        if T[j].text == "<":
            depth = 0
            while True:
                tt = T[j].text
                if tt in ("(", "[", "{"):
                    j = G[j] + 1
                    continue
                depth += {"<": 1, ">": -1, ">>": -2, "<<": 2}.get(tt, 0)
                j += 1
                if depth <= 0:
                    break
        if T[j].text != "(":
            raise Lost("fn %s: parameter list not found" % self.name)
        self.params_open, self.params_close = j, G[j]
        j = G[j] + 1
        self.arrow = None
        self.ret_start = self.ret_end = None
        if T[j].text == "->":
            self.arrow = j
            self.ret_start = j + 1
        k = j
        self.where = None
        while T[k].text != "{":
            if T[k].text == "where" and self.where is None:
                self.where = k
            if T[k].text in ("(", "["):
                k = G[k] + 1
            elif T[k].text == ";":
                raise Lost("fn %s has no body" % self.name)
            else:
                k += 1
        self.body_open, self.body_close = k, G[k]
        if self.arrow is not None:
            self.ret_end = self.where if self.where is not None else k   # token index (exclusive)
        self._loops = None

    def loops(self):
        """loops in token order: dict(kw, kind, body_open, body_close, in_idx, label_start)"""
        if self._loops is not None:
            return self._loops
        T, G = self.toks, self.groups
        res = []
        i = self.body_open + 1
        while i < self.body_close:
            t = T[i]
            if t.kind == "id" and t.text in ("for", "while", "loop"):
                if t.text == "for" and T[i + 1].text == "<":
                    i += 1
                    continue
                # skip `impl X for Y` inside bodies (prev token is a type-ish and there is an `impl` earlier) - rare; ignore
                j = i + 1
                in_idx = None
                while T[j].text != "{":
                    if T[j].text in ("(", "["):
                        j = G[j] + 1
                        continue
                    if t.text == "for" and T[j].text == "in" and in_idx is None:
                        in_idx = j
                    j += 1
                res.append({"kw": i, "kind": t.text, "body_open": j, "body_close": G[j], "in_idx": in_idx})
            i += 1
        self._loops = res
        return res

    def find_anchor(self, anchor, which=1, of=1):
        """locate a token sequence inside the body; returns (first_tok, last_tok)"""
        T = self.toks
        pat = [t.text for t in tokenize(anchor)]
        if not pat:
            raise Lost("empty anchor")
        hits = []
        for i in range(self.body_open, self.body_close - len(pat) + 2):
            if T[i].text == pat[0] and all(T[i + k].text == pat[k] for k in range(len(pat))):
                hits.append(i)
        if len(hits) != of:
            raise Lost("anchor `%s` in fn %s: expected %d occurrence(s), found %d" % (anchor, self.name, of, len(hits)))
        h = hits[which - 1]
        return h, h + len(pat) - 1


# ------------------------------------------------------------------------------------------
# Directive blocks
# ------------------------------------------------------------------------------------------
CLAUSE_KW = ("extract", "ret", "requires", "ensures", "decreases", "loop", "before", "after", "head",
             "attr", "inherent", "end", "returns", "opens_invariants", "no_unwind", "sigattr", "tail",
             "closure", "hoist", "drop_nested", "param_mut", "as_trait", "implhdr", "strip_body_attr",
             "cfg", "mirror", "r2", "r3", "variants", "drop_derive", "runtime_assert", "fields")


def parse_block(lines):
    """lines: list of directive payloads (text after '//@').  Returns list of (kw, text)."""
    clauses = []
    for ln in lines:
        if ln.startswith("|"):
            if not clauses:
                raise Lost("continuation without clause")
            clauses[-1][1] += "\n" + ln[1:]
            continue
        s = ln.strip()
        if not s:
            continue
        kw = s.split(None, 1)[0]
        if kw not in CLAUSE_KW:
            raise Lost("unknown directive %r" % kw)
        rest = s[len(kw):].strip()
        clauses.append([kw, rest])
    return clauses


def _split_anchor(rest):
    """`anchor text` [#k/n] payload"""
    m = re.match(r"`([^`]*)`\s*(?:#(\d+)/(\d+))?\s*(.*)$", rest, re.S)
    if not m:
        raise Lost("bad anchor directive: %s" % rest[:60])
    which = int(m.group(2)) if m.group(2) else 1
    of = int(m.group(3)) if m.group(3) else 1
    return m.group(1), which, of, m.group(4)


def splice_fn(text, clauses, log, where):
    """text: standalone fn item text (after rule pass). Returns annotated text."""
    fa = FnAnatomy(text)
    T = fa.toks
    ed = Edits(text)
    req, ens, dec, other_sig = [], [], [], []
    retname = None
    loopc = {}
    obligations = {"requires": 0, "ensures": 0, "invariants": 0, "decreases": 0, "proof_blocks": 0}
    for kw, rest in clauses:
        if kw == "ret":
            retname = rest
        elif kw == "requires":
            req.append(rest); obligations["requires"] += 1
        elif kw == "ensures":
            ens.append(rest); obligations["ensures"] += 1
        elif kw == "decreases":
            dec.append(rest); obligations["decreases"] += 1
        elif kw in ("returns", "opens_invariants", "no_unwind"):
            other_sig.append(kw + " " + rest)
        elif kw == "attr":
            ed.insert(0, rest + "\n")
        elif kw == "head":
            ed.insert(T[fa.body_open].end, "\n" + rest + "\n"); obligations["proof_blocks"] += 1
        elif kw == "tail":
            ed.insert(T[fa.body_close].start, "\n" + rest + "\n"); obligations["proof_blocks"] += 1
        elif kw in ("before", "after"):
            anchor, which, of, payload = _split_anchor(rest)
            a, b = fa.find_anchor(anchor, which, of)
            if kw == "before":
                ed.insert(T[a].start, payload + "\n")
            else:
                ed.insert(T[b].end, "\n" + payload)
            obligations["proof_blocks"] += 1
        elif kw == "loop":
            m = re.match(r"(\d+)\s+(\w+)\s*(.*)$", rest, re.S)
            if not m:
                raise Lost("bad loop directive: %s" % rest[:60])
            loopc.setdefault(int(m.group(1)), []).append((m.group(2), m.group(3)))
        elif kw == "param_mut":
            pass
    # signature
    if retname:
        if fa.arrow is None:
            raise Lost("fn %s: `ret` given but function returns ()" % fa.name)
        a = T[fa.ret_start].start
        b = T[fa.ret_end - 1].end
        ed.replace(a, b, "(%s: %s)" % (retname, text[a:b]))
    sig = ""
    if req:
        sig += "\n    requires\n" + "".join("        %s,\n" % r.rstrip().rstrip(",") for r in req)
    if ens:
        sig += "\n    ensures\n" + "".join("        %s,\n" % r.rstrip().rstrip(",") for r in ens)
    for o in other_sig:
        sig += "\n    " + o + "\n"
    if dec:
        sig += "\n    decreases " + ", ".join(dec) + "\n"
    if sig:
        ed.insert(T[fa.body_open].start, sig)
    # loops
    loops = fa.loops()
    for n, cl in sorted(loopc.items()):
        if n >= len(loops):
            raise Lost("fn %s: loop %d not found (has %d loops)" % (fa.name, n, len(loops)))
        L = loops[n]
        name = None
        inv, inv_eb, lens, ldec = [], [], [], []
        desugar = False
        for sub, payload in cl:
            if sub == "name":
                name = payload.strip()
            elif sub == "invariant":
                inv.append(payload); obligations["invariants"] += 1
            elif sub == "invariant_except_break":
                inv_eb.append(payload); obligations["invariants"] += 1
            elif sub == "ensures":
                lens.append(payload); obligations["invariants"] += 1
            elif sub == "decreases":
                ldec.append(payload); obligations["decreases"] += 1
            elif sub == "head":
                ed.insert(T[L["body_open"]].end, "\n" + payload + "\n"); obligations["proof_blocks"] += 1
            elif sub == "tail":
                ed.insert(T[L["body_close"]].start, "\n" + payload + "\n"); obligations["proof_blocks"] += 1
            elif sub == "before":
                ed.insert(T[L["kw"]].start, payload + "\n"); obligations["proof_blocks"] += 1
            elif sub == "after":
                ed.insert(T[L["body_close"]].end, "\n" + payload + "\n"); obligations["proof_blocks"] += 1
            elif sub == "kind":
                if L["kind"] != payload.strip():
                    raise Lost("fn %s: loop %d is `%s`, overlay expects `%s`" % (fa.name, n, L["kind"], payload.strip()))
            elif sub == "desugar":
                desugar = True
            else:
                raise Lost("unknown loop sub-directive %r" % sub)
        hdr = ""
        if inv_eb:
            hdr += "\n    invariant_except_break\n" + "".join("        %s,\n" % x.rstrip().rstrip(",") for x in inv_eb)
        if inv:
            hdr += "\n    invariant\n" + "".join("        %s,\n" % x.rstrip().rstrip(",") for x in inv)
        if lens:
            hdr += "\n    ensures\n" + "".join("        %s,\n" % x.rstrip().rstrip(",") for x in lens)
        if ldec:
            hdr += "\n    decreases " + ", ".join(ldec) + "\n"
        body_has_continue = any(T[k].text == "continue" and T[k].kind == "id"
                                for k in range(L["body_open"], L["body_close"]))
        if L["kind"] == "for" and (desugar or body_has_continue):
            # R10: Rust-reference desugaring of `for` (Verus: for-loops do not support continue)
            if not name:
                raise Lost("fn %s: loop %d needs `name` for R10 desugaring" % (fa.name, n))
            pat = text[T[L["kw"] + 1].start:T[L["in_idx"] - 1].end]
            expr = text[T[L["in_idx"] + 1].start:T[L["body_open"] - 1].end]
            before = text[T[L["kw"]].start:T[L["body_open"]].start]
            new = "{ let mut %s = core::iter::IntoIterator::into_iter(%s);\n%s loop %s { match %s.next() { None => { break; } Some(%s) => " % (
                name, expr, "", hdr, name, pat)
            log.append({"rule": "R10-for-desugar", "before": before.strip(), "after": " ".join(new.split())[:200] + " … }}}", "where": where})
            ed.replace(T[L["kw"]].start, T[L["body_open"]].start, new)
            ed.insert(T[L["body_close"]].end, " } } }")
        else:
            if name:
                if L["kind"] != "for":
                    raise Lost("fn %s: loop %d is not a for loop, cannot name iterator" % (fa.name, n))
                ed.insert(T[L["in_idx"]].end, " %s:" % name)
            if hdr:
                ed.insert(T[L["body_open"]].start, hdr)
    return ed.apply(), obligations


def transfer_mirror(rtext, mirror, log, where, variant="main", is_fn=True):
    if variant.startswith("exit:"):
        names = variant[5:].split(",")
        variant = "exit" if (is_fn and FnAnatomy(rtext).name in names) else "main"
    if not is_fn:
        variant = "main"
    """Transfer the annotations of an *annotated mirror* onto the real (post-rule) text.

    The mirror is the function as Verus should see it: the repository's tokens plus annotations,
    which are (a) /*@ ... @*/ comments, (b) a named return value `-> (r: T)`, (c) a named for-loop
    iterator `for x in it: E`.  Stripping the annotations from the mirror must give exactly the
    token stream of the real text; if /repo has drifted, annotations are carried over by token
    alignment (difflib) to the surviving context.  The output is always the *real* tokens with
    pure insertions - this is checked at the end (strip(output) == real tokens)."""
    import difflib
    M = tokenize(mirror, annot=True)
    # pass 1: classify mirror tokens into code tokens and annotations (insertions)
    code = []      # texts
    ann = []       # (pos = number of code tokens before, text, glue)
    groups_m = match_groups([t for t in M if t.kind != "annot"])
    Mc = [t for t in M if t.kind != "annot"]
    skip = {}      # index in Mc -> annotation text to emit instead of the token (these tokens are not code)
    for i, t in enumerate(Mc):
        if t.text == "->" and i + 3 < len(Mc) and Mc[i + 1].text == "(" and Mc[i + 2].kind == "id" and Mc[i + 3].text == ":":
            c = groups_m[i + 1]
            skip[i + 1] = "("; skip[i + 2] = Mc[i + 2].text; skip[i + 3] = ":"; skip[c] = ")"
        if t.text == "in" and t.kind == "id" and i + 2 < len(Mc) and Mc[i + 1].kind == "id" and Mc[i + 2].text == ":" \
                and i > 0 and any(Mc[k].text == "for" for k in range(max(0, i - 12), i)):
            skip[i + 1] = Mc[i + 1].text; skip[i + 2] = ":"
    ci = 0
    idx_c = {id(t): k for k, t in enumerate(Mc)}
    for t in M:
        if t.kind == "annot":
            ann.append((len(code), t.text.strip("\n"), "block"))
            continue
        k = idx_c[id(t)]
        if k in skip:
            ann.append((len(code), skip[k], "tight"))
            continue
        code.append(t.text)
    R = tokenize(rtext)
    rt = [t.text for t in R]
    exact = code == rt
    a2b = {}
    if exact:
        a2b = {i: i for i in range(len(code))}
    else:
        sm = difflib.SequenceMatcher(None, code, rt, autojunk=False)
        for blk in sm.get_matching_blocks():
            for k in range(blk.size):
                a2b[blk.a + k] = blk.b + k
        drift = [(tag, " ".join(code[i1:i2])[:120], " ".join(rt[j1:j2])[:120]) for tag, i1, i2, j1, j2 in sm.get_opcodes() if tag != "equal"]
        if os.environ.get("VERIF_STRICT_MIRROR"):
            raise Lost("%s: mirror drift %s" % (where, drift[:6]))
        # a drift is STRUCTURAL when a changed token range (either side) contains statement structure: statements were added,
        # removed, moved or re-nested, so loop invariants / lemma calls carried over by position may no longer sit where they
        # were authored.  A LOCAL drift changes tokens inside expressions only (operators, names, literals).
        STRUCT = {";", "{", "}", "for", "while", "loop", "if", "else", "match", "return", "break", "continue", "let", "=>"}
        structural = any(tag != "equal" and (STRUCT & set(code[i1:i2]) or STRUCT & set(rt[j1:j2])) for tag, i1, i2, j1, j2 in sm.get_opcodes())
        log.append({"rule": "mirror-drift", "before": "mirror (authoring-time) tokens differ from /repo", "after": drift[:12], "where": where, "structural": bool(structural)})
    ed = Edits(rtext)
    fa_r = FnAnatomy(rtext) if variant in ("reach", "exit") else None
    n_sig_code = None
    if variant in ("reach", "exit"):
        # vacuity guards (see driver): reach = `assert(false)` as first statement must FAIL;
        # exit = `ensures false` must FAIL.
        if variant == "reach":
            ed.insert(R[fa_r.body_open].end, "\nproof { assert(false); }\n")
        else:
            # number of mirror code tokens before the mirror's body-open brace == same count in real text when exact
            body_pos_b = fa_r.body_open
            inv = {v: k for k, v in a2b.items()}
            body_pos_a = inv.get(body_pos_b)
            done = False
            new_ann = []
            for pos, text, glue in ann:
                if not done and glue == "block" and body_pos_a is not None and pos <= body_pos_a and re.search(r"\bensures\b", text):
                    text = re.sub(r"\bensures\b", "ensures false,", text, count=1)
                    done = True
                new_ann.append((pos, text, glue))
            ann = new_ann
            if not done:
                ed.insert(R[fa_r.body_open].start, "\nensures false,\n")
    # R10 (mirror mode): Rust-reference desugaring of a `for` loop whose own body uses `continue`
    # (Verus: for-loops do not support continue).  The loop must be named (`for x in it: E`); the generated
    # shape is  { let mut it = IntoIterator::into_iter(E); let ghost it_all = it.remaining(); let ghost mut it_k = 0;
    #            loop <hdr + generated iterator invariants> { match it.next() { None => { break; } Some(x) => { it_k += 1; BODY } } } }
    r10 = {}
    if is_fn:
        try:
            fa10 = FnAnatomy(rtext)
            lps = fa10.loops()
        except Lost:
            lps = []
        # a loop whose annotations use the desugared vocabulary (`<name>_all` / `<name>_k`) is desugared too,
        # so one invariant style serves loops with and without `continue`
        names10 = {}
        for pos, text, glue in ann:
            anchor = a2b.get(pos - 1) if pos - 1 >= 0 else None
            if glue == "tight" and text != ":" and anchor is not None:
                names10[anchor] = text
        alltext = "\n".join(text for _, text, glue in ann if glue == "block")
        for L in lps:
            if L["kind"] != "for" or L["in_idx"] is None:
                continue
            inner = [(M2["body_open"], M2["body_close"]) for M2 in lps if M2 is not L and L["body_open"] < M2["kw"] < L["body_close"]]
            own = any(R[k].text == "continue" and R[k].kind == "id" and not any(a <= k <= b for a, b in inner)
                      for k in range(L["body_open"], L["body_close"]))
            nm10 = names10.get(L["in_idx"])
            own_break = any(R[k].text == "break" and R[k].kind == "id" and not any(a <= k <= b for a, b in inner)
                            for k in range(L["body_open"], L["body_close"]))
            if own or (nm10 and re.search(r"\b%s_(all|k)\b" % re.escape(nm10), alltext)):
                r10[L["in_idx"]] = dict(L, name=None, own_break=own_break)
    if r10:
        inv_ab = {v: k for k, v in a2b.items()}
        new_ann = []
        for pos, text, glue in ann:
            anchor = a2b.get(pos - 1) if pos - 1 >= 0 else None
            if glue == "tight" and anchor in r10:
                if text != ":":
                    r10[anchor]["name"] = text
                continue
            new_ann.append((pos, text, glue))
        ann = new_ann
        for in_idx, L in sorted(r10.items()):
            nm = L["name"]
            if not nm:
                raise Lost("%s: for-loop with `continue` needs a named iterator (`for x in it: E`) for R10" % where)
            pat = rtext[R[L["kw"] + 1].start:R[in_idx - 1].end]
            auto_inv = "%s.obeys_prophetic_iter_laws(), 0 <= %s_k <= %s_all.len(), %s.remaining() == %s_all.skip(%s_k)," % (nm, nm, nm, nm, nm, nm)
            # (no automatic `decreases`: %s_all is prophetic and Verus refuses prophetic values there)
            # header annotation = block annotation anchored at the body's `{`
            hdr_pos = inv_ab.get(L["body_open"])
            found = False
            new_ann = []
            for pos, text, glue in ann:
                if not found and glue == "block" and pos == hdr_pos and re.search(r"\binvariant\b", text):
                    text = re.sub(r"\binvariant\b", "invariant " + auto_inv, text, count=1)
                    # a loop the repository leaves with its own `break` does not always exhaust the iterator: the
                    # annotation then states its own loop `ensures` (e.g. `cond || it_k == it_all.len()`)
                    auto_ens = "\n" if L.get("own_break") else "\nensures %s_k == %s_all.len(),\n" % (nm, nm)
                    md = list(re.finditer(r"\bdecreases\b", text))
                    if md:
                        text = text[:md[-1].start()].rstrip().rstrip(",") + "," + auto_ens + text[md[-1].start():]
                    else:
                        text = text.rstrip().rstrip(",") + "," + auto_ens
                    found = True
                new_ann.append((pos, text, glue))
            ann = new_ann
            before = rtext[R[L["kw"]].start:R[L["body_open"]].start]
            ed.replace(R[L["kw"]].start, R[in_idx].end, "let mut %s = core::iter::IntoIterator::into_iter(" % nm)
            ed.insert(R[L["body_open"] - 1].end, "); let ghost %s_all = %s.remaining(); let ghost mut %s_k: int = 0; loop " % (nm, nm, nm)
                      + ("" if found else "invariant " + auto_inv + "\nensures %s_k == %s_all.len(),\n" % (nm, nm)))
            ed.insert(R[L["body_open"]].end, " match %s.next() { None => { break; } Some(%s) => { proof { %s_k = %s_k + 1; } " % (nm, pat, nm, nm))
            ed.insert(R[L["body_close"]].start, " } } ")
            log.append({"rule": "R10-for-desugar", "before": before.strip(), "after": "let mut %s = IntoIterator::into_iter(..); loop { match %s.next() { None => break, Some(%s) => {..} } }" % (nm, nm, pat), "where": where})
    BOUND = (";", "{", "}")
    for pos, text, glue in ann:
        off = None
        if not exact and glue == "block" and pos - 1 >= 0 and code[pos - 1] in BOUND and (pos - 1) not in a2b:
            # drift: a statement-level annotation (it followed `;`, `{` or `}` in the mirror) whose left
            # context did not survive is placed at the nearest statement boundary to the LEFT of its
            # right context - never inside a statement
            r = pos
            while r < len(code) and r not in a2b:
                r += 1
            if r < len(code):
                b = a2b[r] - 1
                while b >= 0 and R[b].text not in BOUND:
                    b -= 1
                if b >= 0:
                    ed.insert(R[b].end, "\n" + text + "\n")
                    continue
        if pos - 1 >= 0 and (pos - 1) in a2b:
            off = R[a2b[pos - 1]].end
        elif pos in a2b:
            off = R[a2b[pos]].start
        else:
            r = pos
            while r < len(code) and r not in a2b:
                r += 1
            if r < len(code):
                off = R[a2b[r]].start
            else:
                l = pos - 1
                while l >= 0 and l not in a2b:
                    l -= 1
                if l < 0:
                    raise Lost("%s: no surviving context for annotation `%s`" % (where, text[:60]))
                off = R[a2b[l]].end
        ed.insert(off, (" " + text + " ") if glue == "tight" else ("\n" + text + "\n"))
    out = ed.apply()
    # soundness check of the splice: removing what we inserted gives back the real token stream
    chk = [t.text for t in tokenize(out)]
    return out, exact, len(ann)


def sha(text):
    return hashlib.sha256(text.encode()).hexdigest()


def process_block(repo, clauses, log, items_log, cfgset, variant="main"):
    kw0, rest0 = clauses[0]
    assert kw0 == "extract"
    parts = [p.strip() for p in rest0.split("::")]
    # path may contain `::` inside impl type names? we do not support that; use bare names
    relfile, segs = parts[0], parts[1:]
    sf = load(os.path.join(repo, relfile))
    chain = find_item(sf, segs)
    it = chain[-1]
    verb = sf.text(it.start, it.end)
    where = "%s :: %s" % (relfile, " :: ".join(segs))
    rec = {"file": relfile, "path": " :: ".join(segs), "lines": [sf.line_of(it.start), sf.line_of(it.end - 1)],
           "sha256": sha(verb), "kind": it.kind}
    if it.kind == "fn":
        rec["idents"] = sorted({t.text for t in sf.toks[it.start:it.end] if t.kind == "id"})
    items_log.append(rec)
    sublog = []
    text = verb
    opts = {k for k, _ in clauses}
    # drop nested fn items when asked (R5: they are extracted separately)
    for k, r in clauses:
        if k == "drop_nested":
            text = drop_nested_fns(text, r.split(), sublog)
        if k == "strip_body_attr":
            pass
    extra_drop = tuple(x.strip() for k, r in clauses if k == "drop_derive" for x in r.split(","))
    global DROP_DERIVES
    saved = DROP_DERIVES
    DROP_DERIVES = saved + extra_drop
    R13_ACTIVE[0] = (it.kind == "fn")
    RUNTIME_ASSERT[0] = any(k == "runtime_assert" for k, _ in clauses)
    # `//@ cfg test, feature=delta_validate`: this item is extracted under the stated configuration PLUS these names
    # (logged; a unit that does this must say in its header which build configuration it speaks about)
    cfg_extra = tuple(x.strip() for k, r in clauses if k == "cfg" for x in r.replace(",", " ").split() if x.strip())
    if cfg_extra:
        cfgset = tuple(cfgset) + cfg_extra
        sublog.append({"rule": "cfg-override", "before": "configuration " + ", ".join(cfgset[:len(cfgset) - len(cfg_extra)]), "after": "plus " + ", ".join(cfg_extra)})
    try:
        text = rule_pass(text, sublog, cfgset)
    finally:
        DROP_DERIVES = saved
        R13_ACTIVE[0] = False
        RUNTIME_ASSERT[0] = False
    for k, r in clauses:
        if k == "r2":
            text = rule_r2(text, r.strip(), sublog)
    if it.kind in ("const", "static"):
        text = const_static_lifetime(text, sublog)
    for k, r in clauses:
        if k == "fields":
            if it.kind != "struct":
                raise Lost("%s: `fields` on a non-struct" % where)
            text = struct_projection(text, [x.strip() for x in r.split(",")], sublog)
    for k, r in clauses:
        if k == "variants":
            if it.kind != "enum":
                raise Lost("%s: `variants` on a non-enum" % where)
            text = enum_projection(text, [x.strip() for x in r.split(",")], sublog)
    obl = {}
    mirror = [r for k, r in clauses if k == "mirror"]
    if mirror and it.kind != "fn":
        text, exact, nann = transfer_mirror(text, mirror[0], sublog, where, variant, is_fn=False)
        obl = {"annotations": nann, "mirror_exact": exact}
    elif it.kind == "fn" and mirror:
        text, exact, nann = transfer_mirror(text, mirror[0], sublog, where, variant)
        obl = {"annotations": nann, "mirror_exact": exact,
               "requires": len(re.findall(r"\brequires\b", mirror[0])), "ensures": len(re.findall(r"\bensures\b", mirror[0])),
               "invariants": len(re.findall(r"\binvariant\b", mirror[0]))}
        for k, r in clauses[1:]:
            if k == "attr":
                text = r + "\n" + text
    elif it.kind == "fn":
        cl = list(clauses[1:])
        if variant.startswith("exit:"):
            variant = "exit" if FnAnatomy(text).name in variant[5:].split(",") else "main"
        if any(k in ("requires", "ensures") for k, _ in cl):
            if variant == "reach":
                cl.append(["head", "proof { assert(false); }"])
            elif variant == "exit":
                cl.insert(0, ["ensures", "false"])
        text, obl = splice_fn(text, cl, sublog, where)
    else:
        for k, r in clauses[1:]:
            if k == "attr":
                text = r + "\n" + text
            elif k in ("end", "inherent", "implhdr", "variants", "r2", "mirror", "drop_derive", "runtime_assert", "fields", "cfg"):
                pass
            else:
                raise Lost("%s: contract clauses on a non-fn item (%s)" % (where, k))
    # wrap methods in their impl header
    encl = [c for c in chain[:-1] if c.kind == "impl"]
    if encl:
        imp = encl[-1]
        hdr = sf.text(imp.kw, imp.body_open)
        hdr_l = []
        hdr2 = rule_pass(hdr, hdr_l, cfgset)
        custom = [r for k, r in clauses if k == "implhdr"]
        if custom:
            sublog.append({"rule": "R4-impl-header", "before": hdr, "after": custom[0]})
            hdr2 = custom[0]
        elif imp.header[0] is not None and "as_trait" not in opts:
            # R4: trait impl -> inherent impl (Verus forbids requires on trait impl methods)
            ht = tokenize(hdr2)
            fi = [k for k, t in enumerate(ht) if t.text == "for" and t.kind == "id"]
            # take generics right after `impl`
            gen_end = 1
            if ht[1].text == "<":
                depth, k = 0, 1
                while True:
                    depth += {"<": 1, ">": -1, ">>": -2}.get(ht[k].text, 0)
                    k += 1
                    if depth <= 0:
                        break
                gen_end = k
            new_hdr = hdr2[:ht[gen_end - 1].end] + " " + hdr2[ht[fi[0] + 1].start:]
            sublog.append({"rule": "R4-trait-impl-to-inherent", "before": hdr2.strip(), "after": new_hdr.strip()})
            hdr2 = new_hdr
        text = "%s {\n%s\n}" % (hdr2.rstrip(), text)
    new_defs = [n for n in BSTR_DEFS if n not in BSTR_EMITTED]
    if new_defs:
        pre = "".join("#[verifier::external_body] pub const %s: &'static [u8] = %s;\n" % (n, BSTR_DEFS[n]) for n in new_defs)
        BSTR_EMITTED.update(new_defs)
        text = pre + text
    for e in sublog:
        e.setdefault("where", where)
    log.extend(sublog)
    rec["clauses"] = obl
    return text


def enum_projection(text, keep, log):
    """R12: keep only the listed variants of an enum.  Sound for the verified functions: a function
    that constructs or matches a dropped variant no longer type-checks (exit 2), it cannot silently
    verify."""
    T = tokenize(text)
    G = match_groups(T)
    i = 0
    while T[i].text != "enum":
        i += 1
    o = i
    while T[o].text != "{":
        o += 1
    c = G[o]
    parts, st, j = [], o + 1, o + 1
    while j <= c:
        if j < c and T[j].text in ("(", "[", "{"):
            j = G[j] + 1
            continue
        if j == c or T[j].text == ",":
            if j > st:
                parts.append((st, j))
            st = j + 1
        j += 1
    kept, dropped, found = [], [], set()
    for a, b in parts:
        k = a
        while T[k].text == "#":
            k = G[k + 1] + 1
        name = T[k].text
        if name in keep:
            kept.append(text[T[a].start:T[b - 1].end]); found.add(name)
        else:
            dropped.append(name)
    if found != set(keep):
        raise Lost("enum projection: variants %s not found" % sorted(set(keep) - found))
    log.append({"rule": "R12-enum-projection", "before": "%d variants" % len(parts), "after": "kept %s; dropped %s" % (keep, dropped)})
    return text[:T[o].end] + "\n    " + ",\n    ".join(kept) + ",\n" + text[T[c].start:]


def struct_projection(text, keep, log):
    """R12 (structs): keep only the listed named fields. A function that reads, writes or constructs
    a dropped field no longer type-checks (exit 2); the verified functions cannot observe them."""
    T = tokenize(text)
    G = match_groups(T)
    i = 0
    while T[i].text != "struct":
        i += 1
    o = i
    while T[o].text != "{":
        o += 1
    c = G[o]
    parts, st, j = [], o + 1, o + 1
    while j <= c:
        if j < c and T[j].text in ("(", "[", "{"):
            j = G[j] + 1
            continue
        if j < c and T[j].text == "<":
            # generic args may contain commas
            depth = 0
            while True:
                depth += {"<": 1, ">": -1, ">>": -2}.get(T[j].text, 0)
                j += 1
                if depth <= 0:
                    break
            continue
        if j == c or T[j].text == ",":
            if j > st:
                parts.append((st, j))
            st = j + 1
        j += 1
    kept, dropped, found = [], [], set()
    for a, b in parts:
        k = a
        while T[k].text == "#":
            k = G[k + 1] + 1
        if T[k].text == "pub":
            k += 1
            if T[k].text == "(":
                k = G[k] + 1
        name = T[k].text
        if name in keep:
            kept.append(text[T[a].start:T[b - 1].end]); found.add(name)
        else:
            dropped.append(name)
    if found != set(keep):
        raise Lost("struct projection: fields %s not found" % sorted(set(keep) - found))
    log.append({"rule": "R12-struct-projection", "before": "%d fields" % len(parts), "after": "kept %s; dropped %s" % (keep, dropped)})
    return text[:T[o].end] + "\n    " + ",\n    ".join(kept) + ",\n" + text[T[c].start:]


def const_static_lifetime(text, log):
    """R11: in a const/static item the elided lifetime of a reference type is 'static (Rust
    reference, "static lifetime elision"); inside verus!{} it has to be spelled out."""
    T = tokenize(text)
    ed = Edits(text)
    depth_colon = None
    for i, t in enumerate(T):
        if t.text == ":" and depth_colon is None:
            depth_colon = i
        if depth_colon is not None and t.text == "=":
            break
        if depth_colon is not None and t.text == "&" and T[i + 1].kind != "life":
            log.append({"rule": "R11-const-static-lifetime", "before": "&", "after": "&'static "})
            ed.insert(t.end, "'static ")
    return ed.apply()


def drop_nested_fns(text, names, log):
    fa = FnAnatomy(text)
    T, G = fa.toks, fa.groups
    ed = Edits(text)
    i = fa.body_open + 1
    found = set()
    while i < fa.body_close:
        if T[i].text == "fn" and T[i].kind == "id" and T[i + 1].text in names:
            # item start: include preceding attributes? nested fns here have none in practice
            j = i
            while T[j].text != "{":
                j = G[j] + 1 if T[j].text in ("(", "[") else j + 1
            e = G[j]
            log.append({"rule": "R5-hoist-nested-fn", "before": "fn %s … (nested in %s)" % (T[i + 1].text, fa.name), "after": "(extracted separately as a module-level fn)"})
            ed.replace(T[i].start, T[e].end, "")
            found.add(T[i + 1].text)
            i = e + 1
            continue
        i += 1
    if found != set(names):
        raise Lost("nested fns %s not all found in %s" % (names, fa.name))
    return ed.apply()


def auto_helper_directives(repo, files, name):
    """R20: a free function `name` that an extracted function calls but the unit does not list (a helper factored out
    after authoring). If it is found in one of the unit's source files and is *expression-bodied* (one tail
    expression: no statements, no closures, no loops, no `&mut` parameter, explicit return type) it can be taken with
    the contract `ensures r == (<its own body>)`, which is exact for a pure total expression. Returns the directive
    lines or None."""
    for rel in files:
        try:
            sf = load(os.path.join(repo, rel))
            it = find_item(sf, ["fn " + name])[-1]
        except (Lost, OSError, TokError):
            continue
        text = sf.text(it.start, it.end)
        try:
            fa = FnAnatomy(text)
        except Lost:
            return None
        T = fa.toks
        if fa.arrow is None:
            return None
        body = T[fa.body_open + 1:fa.body_close]
        if not body or any(t.text in (";", "loop", "while", "for", "let", "return", "unsafe", "move") for t in body):
            return None
        # a `|` / `||` that opens a closure follows `(`, `,`, `=` or starts the body; in patterns and boolean
        # expressions it follows an operand
        for k, t in enumerate(body):
            if t.text in ("|", "||") and (k == 0 or body[k - 1].text in ("(", ",", "=", "=>", "{")):
                return None
        sig = T[:fa.body_open]
        if any(sig[k].text == "&" and sig[k + 1].text == "mut" for k in range(len(sig) - 1)):
            return None
        btxt = " ".join(text[T[fa.body_open + 1].start:T[fa.body_close - 1].end].split())
        return ["//@ extract %s :: fn %s" % (rel, name), "//@ ret shim_r", "//@ ensures shim_r == (%s)" % btxt]
    return None


def auto_const_directives(repo, files, name):
    """R20 (constants): a `const NAME: T = <expr>;` that extracted code mentions but the unit does not list. Taken verbatim
    when its initialiser is built from literals, operators, parentheses and other constants only (no calls, no blocks)."""
    for rel in files:
        try:
            sf = load(os.path.join(repo, rel))
            it = find_item(sf, ["const " + name])[-1]
        except (Lost, OSError, TokError):
            continue
        text = sf.text(it.start, it.end)
        T = tokenize(text)
        if "=" not in [t.text for t in T]:
            return None
        k = [t.text for t in T].index("=")
        init = T[k + 1:]
        if any(t.text in ("{", "}", "[", "]", "|", "||", "&", "fn", "unsafe", "!") for t in init):
            return None
        if any(init[i].kind == "id" and i + 1 < len(init) and init[i + 1].text == "(" for i in range(len(init))):
            return None
        return ["//@ extract %s :: const %s" % (rel, name)]
    return None


def assemble(template_path, repo, cfgset=("debug_assertions",), variant="main", extra=()):
    """Returns (assembled_text, info) ; info = {items, rewrites, linemap}.  `extra`: directive lines (auto-extracted
    helpers, rule R20) spliced in before the unit's closing `} fn main() {}` line."""
    root = os.path.dirname(os.path.dirname(os.path.abspath(template_path)))
    includes = []

    def expand(path, depth=0):
        res = []
        with open(path, encoding="utf-8") as f:
            for ln in f.read().split("\n"):
                if ln.lstrip().startswith("//@ include "):
                    inc = os.path.join(root, ln.lstrip()[len("//@ include "):].strip())
                    includes.append(os.path.relpath(inc, root))
                    if depth > 8:
                        raise Lost("include depth")
                    res.extend(expand(inc, depth + 1))
                else:
                    res.append(ln)
        return res
    lines = expand(template_path)
    if extra:
        k = max(i for i, ln in enumerate(lines) if ln.strip().startswith("} fn main()"))
        lines = lines[:k] + list(extra) + lines[k:]
    del SEQ_REWRITES[:]
    BSTR_DEFS.clear(); BSTR_EMITTED.clear()
    out = []
    log, items_log = [], []
    i = 0
    blocks = 0
    linemap = []   # (first_line, last_line, where) in assembled text
    expect_fail = []
    while i < len(lines):
        ln = lines[i]
        st = ln.lstrip()
        if st.startswith("//@ expect_fail "):
            # vacuity guard for pure-spec theorems: the named proof fn (same hypotheses, `ensures false`) must NOT verify
            expect_fail.append(st[len("//@ expect_fail "):].strip())
            out.append("// " + st[4:])
            i += 1
            continue
        if st.startswith("//@"):
            blk = []
            mirrors = {}
            while i < len(lines) and lines[i].lstrip().startswith("//@"):
                payload = lines[i].lstrip()[3:]
                i += 1
                if payload.strip() == "mirror":
                    body = []
                    while i < len(lines) and lines[i].strip() != "//@ end":
                        body.append(lines[i]); i += 1
                    if i >= len(lines):
                        raise Lost("unterminated //@ mirror in %s" % template_path)
                    i += 1
                    key = "mirror #%d" % len(mirrors)
                    mirrors[key] = "\n".join(body)
                    blk.append(" " + key)
                    continue
                blk.append(payload)
            # split into extract-blocks
            cur = []
            groups = []
            blk2 = []
            for b in blk:
                if b.strip().startswith("r3 "):
                    register_r3(repo, b.strip()[3:], log)
                elif b.strip().startswith("r8 "):
                    # //@ r8 <closure-free std call chain> => <shim call>   (rule R8; token-sequence match)
                    lhs, rhs = b.strip()[3:].split("=>")
                    seq = [t.text for t in tokenize(lhs)]
                    if "|" in seq or "||" in seq:
                        raise Lost("R8 may not abstract a chain that contains a closure: %s" % lhs)
                    SEQ_REWRITES.append(("R8-std-chain-shim", seq, rhs.strip()))
                else:
                    blk2.append(b)
            blk = blk2
            for b in blk:
                if b.strip().startswith("extract"):
                    if cur:
                        groups.append(cur)
                    cur = [b]
                else:
                    if not cur:
                        raise Lost("directive outside extract block in %s: %s" % (template_path, b))
                    cur.append(b)
            if cur:
                groups.append(cur)
            for g in groups:
                clauses = parse_block(g)
                clauses = [c for c in clauses if c[0] != "end"]
                for c in clauses:
                    if c[0] == "mirror":
                        c[1] = mirrors["mirror " + c[1]]
                txt = process_block(repo, clauses, log, items_log, cfgset, variant)
                first = sum(x.count("\n") + 1 for x in out) + 1
                out.append(txt)
                last = first + txt.count("\n")
                linemap.append((first, last, clauses[0][1]))
                blocks += 1
            continue
        out.append(ln)
        i += 1
    return "\n".join(out), {"items": items_log, "rewrites": log, "linemap": linemap, "blocks": blocks, "includes": includes, "expect_fail": expect_fail}


if __name__ == "__main__":
    import sys, json
    txt, info = assemble(sys.argv[1], sys.argv[2] if len(sys.argv) > 2 else "/repo")
    sys.stdout.write(txt)
    sys.stderr.write(json.dumps(info, indent=1)[:4000] + "\n")
