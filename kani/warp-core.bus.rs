// appended to crates/warp-core/src/materialization/bus.rs in the scratch copy only (cfg(kani)).
#[cfg(kani)]
#[allow(clippy::all, clippy::pedantic, clippy::nursery, missing_docs)]
mod verif_kani {
    use super::*;
    /// BOUNDED (one channel, one key, two emissions with 1-byte payloads): the second emission under the
    /// same (channel, key) is rejected AND the first payload is what stays pending.
    #[kani::proof]
    #[kani::unwind(8)]
    fn c18_bounded_duplicate_emission_rejected_and_not_merged() {
        let bus = MaterializationBus::new();
        let ch = crate::ident::TypeId([7u8; 32]);
        let key = EmitKey::new([3u8; 32], 5);
        let a: u8 = kani::any();
        let b: u8 = kani::any();
        let r1 = bus.emit(ch, key, vec![a]);
        assert!(r1.is_ok());
        let r2 = bus.emit(ch, key, vec![b]);
        assert!(r2.is_err());
        let pending = bus.pending.borrow();
        let stored = pending.get(&ch).and_then(|m| m.get(&key)).map(|v| v[0]);
        assert!(stored == Some(a));
        core::mem::forget(r1); core::mem::forget(r2);
    }
}
