// appended to crates/warp-core/src/materialization/reduce_op.rs in the scratch copy only (cfg(kani)).
#[cfg(kani)]
#[allow(clippy::all, clippy::pedantic, clippy::nursery, missing_docs)]
mod verif_kani {
    use super::*;
    fn any_vec(max: usize) -> Vec<u8> {
        let n: usize = kani::any();
        kani::assume(n <= max);
        let mut v = Vec::new();
        let mut i = 0;
        while i < max { if i < n { v.push(kani::any()); } i += 1; }
        v
    }
    /// COMPLETE: the commutativity classification is exactly {Sum, Max, Min, BitOr, BitAnd}
    #[kani::proof]
    fn c18_is_commutative_classification() {
        assert!(ReduceOp::Sum.is_commutative() && ReduceOp::Max.is_commutative() && ReduceOp::Min.is_commutative()
            && ReduceOp::BitOr.is_commutative() && ReduceOp::BitAnd.is_commutative());
        assert!(!ReduceOp::First.is_commutative() && !ReduceOp::Last.is_commutative() && !ReduceOp::Concat.is_commutative());
    }
    /// BOUNDED (operands of 0..=2 bytes, unequal lengths included): the pairwise helpers are commutative,
    /// OR pads to the longer operand, AND truncates to the shorter one
    #[kani::proof]
    #[kani::unwind(6)]
    fn c18_bounded2_pairwise_helpers() {
        let a = any_vec(2); let b = any_vec(2);
        let o1 = bitwise_or(&a, &b); let o2 = bitwise_or(&b, &a);
        let n1 = bitwise_and(&a, &b); let n2 = bitwise_and(&b, &a);
        assert!(o1.len() == a.len().max(b.len()) && o1 == o2);
        assert!(n1.len() == a.len().min(b.len()) && n1 == n2);
        let mut i = 0;
        while i < 2 {
            if i < o1.len() { assert!(o1[i] == (if i < a.len() { a[i] } else { 0 }) | (if i < b.len() { b[i] } else { 0 })); }
            if i < n1.len() { assert!(n1[i] == a[i] & b[i]); }
            i += 1;
        }
    }
    /// BOUNDED (two operands of 0..=2 bytes): a commutative reducer gives the same bytes when the two
    /// payloads swap keys (re-keying invariance), for BitAnd and BitOr through the real `apply`
    #[kani::proof]
    #[kani::unwind(6)]
    fn c18_bounded2x2_apply_bitand_bitor_rekey_invariant() {
        let a = any_vec(2); let b = any_vec(2);
        let r1 = ReduceOp::BitAnd.apply(vec![a.clone(), b.clone()]);
        let r2 = ReduceOp::BitAnd.apply(vec![b.clone(), a.clone()]);
        assert!(r1 == r2);
        assert!(r1.len() == a.len().min(b.len()));
        let s1 = ReduceOp::BitOr.apply(vec![a.clone(), b.clone()]);
        let s2 = ReduceOp::BitOr.apply(vec![b, a]);
        assert!(s1 == s2);
    }
    /// reachability guard (must FAIL)
    #[kani::proof]
    #[kani::unwind(6)]
    fn guard_bitwise_and_is_not_always_empty() { let a = any_vec(2); let b = any_vec(2); assert!(bitwise_and(&a, &b).len() == 0); }
}
