// appended to crates/warp-core/src/snapshot_accum.rs in the scratch copy only (cfg(kani)). C06: the second state-root
// implementation opens its pre-image with the same header as snapshot::compute_state_root (domain tag, root ids).
// blake3 update/finalize are stubbed to a recording buffer (atomics: the crate forbids unsafe code).
#[cfg(kani)]
#[allow(clippy::all, clippy::pedantic, clippy::nursery, missing_docs)]
mod verif_kani {
    use super::*;
    use std::sync::atomic::{AtomicU8, AtomicUsize, Ordering::Relaxed};
    static BUF: [AtomicU8; 96] = [const { AtomicU8::new(0) }; 96];
    static LEN: AtomicUsize = AtomicUsize::new(0);
    static OVER: AtomicUsize = AtomicUsize::new(0);
    fn stub_detect() -> blake3::platform::Platform { blake3::platform::Platform::Portable }
    fn stub_update<'a>(h: &'a mut blake3::Hasher, input: &[u8]) -> &'a mut blake3::Hasher {
        let mut i = 0;
        while i < input.len() {
            let n = LEN.load(Relaxed);
            if n < 96 { BUF[n].store(input[i], Relaxed); LEN.store(n + 1, Relaxed); } else { OVER.store(1, Relaxed); }
            i += 1;
        }
        h
    }
    fn stub_finalize(_h: &blake3::Hasher) -> blake3::Hash { blake3::Hash::from_bytes([0u8; 32]) }

    /// COMPLETE over every root key: with nothing reachable, the bytes fed to the hasher are exactly
    /// STATE_ROOT_V1 ++ root.warp_id ++ root.local_id (the header is emitted by branch-free code before any loop,
    /// so the same three chunks open the pre-image for every reachable set).
    #[kani::proof]
    #[kani::unwind(40)]
    #[kani::stub(blake3::platform::Platform::detect, stub_detect)]
    #[kani::stub(blake3::Hasher::update, stub_update)]
    #[kani::stub(blake3::Hasher::finalize, stub_finalize)]
    fn c06_accum_header_is_tag_then_root() {
        let w: [u8; 32] = kani::any();
        let l: [u8; 32] = kani::any();
        let root = NodeKey { warp_id: WarpId(w), local_id: NodeId(l) };
        let acc = SnapshotAccumulator::new();
        let rn: BTreeSet<NodeKey> = BTreeSet::new();
        let rw: BTreeSet<WarpId> = BTreeSet::new();
        let r = acc.compute_state_root(&root, &rn, &rw);
        core::mem::forget(acc);
        let tag = crate::domain::STATE_ROOT_V1;
        assert!(OVER.load(Relaxed) == 0);
        assert!(LEN.load(Relaxed) == tag.len() + 64);
        let mut i = 0;
        while i < tag.len() { assert!(BUF[i].load(Relaxed) == tag[i]); i += 1; }
        let mut j = 0;
        while j < 32 { assert!(BUF[tag.len() + j].load(Relaxed) == w[j]); assert!(BUF[tag.len() + 32 + j].load(Relaxed) == l[j]); j += 1; }
        let _ = r;
    }

    /// reachability guard (must FAIL): something IS hashed
    #[kani::proof]
    #[kani::unwind(40)]
    #[kani::stub(blake3::platform::Platform::detect, stub_detect)]
    #[kani::stub(blake3::Hasher::update, stub_update)]
    #[kani::stub(blake3::Hasher::finalize, stub_finalize)]
    fn guard_accum_hashes_nothing() {
        let root = NodeKey { warp_id: WarpId([1u8; 32]), local_id: NodeId([2u8; 32]) };
        let acc = SnapshotAccumulator::new();
        let rn: BTreeSet<NodeKey> = BTreeSet::new();
        let rw: BTreeSet<WarpId> = BTreeSet::new();
        let r = acc.compute_state_root(&root, &rn, &rw);
        core::mem::forget(acc);
        let _ = r;
        assert!(LEN.load(Relaxed) == 0);
    }
}
