// appended to crates/warp-core/src/scheduler.rs in the scratch copy only (cfg(kani)).
#[cfg(kani)]
mod verif_kani {
    use super::*;

    fn any_thin() -> RewriteThin {
        RewriteThin { scope_be32: kani::any(), rule_id: kani::any(), nonce: kani::any(), handle: kani::any() }
    }

    /// Reference order written from the C03 statement: ascending byte order of the scope hash, then
    /// rule id, nonce as tie-break (numeric order == big-endian byte order for u32).
    fn key_order(a: &RewriteThin, b: &RewriteThin) -> Ordering {
        let mut i = 0;
        while i < 32 {
            if a.scope_be32[i] < b.scope_be32[i] { return Ordering::Less; }
            if a.scope_be32[i] > b.scope_be32[i] { return Ordering::Greater; }
            i += 1;
        }
        if a.rule_id < b.rule_id { return Ordering::Less; }
        if a.rule_id > b.rule_id { return Ordering::Greater; }
        if a.nonce < b.nonce { return Ordering::Less; }
        if a.nonce > b.nonce { return Ordering::Greater; }
        Ordering::Equal
    }

    /// COMPLETE (both keys fully symbolic; loops have the fixed trip count 32): the comparator used
    /// by the small-batch branch realises the statement's order.
    #[kani::proof]
    #[kani::unwind(34)]
    fn cmp_thin_is_statement_order() {
        let a = any_thin();
        let b = any_thin();
        assert!(cmp_thin(&a, &b) == key_order(&a, &b));
    }

    /// COMPLETE: LSD digit order (pass 19 most significant .. pass 0 least) == cmp_thin order, so the
    /// radix branch (sorted by all 20 digits, proved in Verus unit c03_radix) and the comparison
    /// branch realise the same total order.
    #[kani::proof]
    #[kani::unwind(34)]
    fn digits_realise_cmp_thin() {
        let a = any_thin();
        let b = any_thin();
        let mut ord = Ordering::Equal;
        let mut p: usize = 20;
        while p > 0 {
            p -= 1;
            if ord == Ordering::Equal {
                ord = bucket16(&a, p).cmp(&bucket16(&b, p));
            }
        }
        assert!(ord == cmp_thin(&a, &b));
    }

    /// reachability guard: a deliberately false claim must FAIL (harness is not vacuous)
    #[kani::proof]
    #[kani::unwind(34)]
    fn guard_cmp_thin_not_constant() {
        let a = any_thin();
        let b = any_thin();
        assert!(cmp_thin(&a, &b) != Ordering::Less);
    }
}
