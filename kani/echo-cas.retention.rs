// appended to crates/echo-cas/src/retention.rs in the scratch copy only (cfg(kani)).
// Hint-free companion of unit c20_retention: that unit takes "the coordinate's Ord is lawful and agrees with ==" as a
// precondition (vstd obeys_cmp); this harness checks the agreement on the real type, whatever way Ord is implemented.
#[cfg(kani)]
#[allow(clippy::all, clippy::pedantic, clippy::nursery, missing_docs)]
mod verif_kani {
    use super::*;
    fn pick(s: bool) -> String { if s { String::from("a") } else { String::from("b") } }
    fn any_coord() -> SemanticBlobCoordinate {
        let d: u8 = kani::any();
        let mut digest = [0u8; 32];
        digest[31] = d;
        SemanticBlobCoordinate {
            namespace: pick(kani::any()),
            schema_hash_hex: pick(kani::any()),
            artifact_hash_hex: pick(kani::any()),
            role: if kani::any() { RetainedBlobRole::ContractArtifact } else { RetainedBlobRole::Witness },
            semantic_digest: digest,
        }
    }
    /// BOUNDED (each string field ranges over two values, two roles, digests differing in the last byte): two
    /// coordinates compare Equal exactly when they are equal in ALL five fields - so distinct coordinates are distinct
    /// keys of the index map.
    #[kani::proof]
    #[kani::unwind(40)]
    fn c20_bounded_coordinate_order_agrees_with_eq() {
        let a = any_coord();
        let b = any_coord();
        let eq = a == b;
        let ord_eq = a.cmp(&b) == core::cmp::Ordering::Equal;
        assert!(eq == ord_eq);
        core::mem::forget(a); core::mem::forget(b);
    }
    /// reachability guard (must FAIL)
    #[kani::proof]
    #[kani::unwind(40)]
    fn guard_coordinates_never_equal() {
        let a = any_coord();
        let b = any_coord();
        assert!(a != b);
        core::mem::forget(a); core::mem::forget(b);
    }
}
