// appended to crates/warp-core/src/materialization/emit_key.rs in the scratch copy only (cfg(kani)).
// C18: the bus units (c18_bus, c18_finalize) take `EmitKey`'s hand-written `Ord` as a lawful total order that agrees with
// the derived `==` (BTreeMap key). These harnesses discharge that on the real impl for ALL key pairs
// (2 x (32 symbolic bytes + 2 symbolic u32); the only loop is the reference comparison, fixed trip count 32).
#[cfg(kani)]
#[allow(clippy::all, clippy::pedantic, clippy::nursery, missing_docs)]
mod verif_kani {
    use super::*;
    use core::cmp::Ordering;

    fn any_key() -> EmitKey {
        EmitKey { scope_hash: kani::any(), rule_id: kani::any(), subkey: kani::any() }
    }

    /// Reference order written from the documented order (module doc "# Ordering"): lexicographic on
    /// (scope_hash bytes ascending from index 0, rule_id, subkey); no call into any `Ord` impl.
    fn ref_order(a: &EmitKey, b: &EmitKey) -> Ordering {
        let mut i = 0;
        while i < 32 {
            if a.scope_hash[i] < b.scope_hash[i] { return Ordering::Less; }
            if a.scope_hash[i] > b.scope_hash[i] { return Ordering::Greater; }
            i += 1;
        }
        if a.rule_id < b.rule_id { return Ordering::Less; }
        if a.rule_id > b.rule_id { return Ordering::Greater; }
        if a.subkey < b.subkey { return Ordering::Less; }
        if a.subkey > b.subkey { return Ordering::Greater; }
        Ordering::Equal
    }

    /// field-by-field equality, written without `PartialEq for EmitKey`
    fn ref_same(a: &EmitKey, b: &EmitKey) -> bool {
        let mut i = 0;
        while i < 32 {
            if a.scope_hash[i] != b.scope_hash[i] { return false; }
            i += 1;
        }
        a.rule_id == b.rule_id && a.subkey == b.subkey
    }

    /// COMPLETE: `Ord::cmp` is the documented lexicographic order for every pair of keys.
    #[kani::proof]
    #[kani::unwind(34)]
    fn c18_emit_key_cmp_is_documented_order() {
        let a = any_key();
        let b = any_key();
        assert!(a.cmp(&b) == ref_order(&a, &b));
    }

    /// COMPLETE: `cmp == Equal` exactly when the derived `==` holds, and the derived `==` is equality of all three
    /// fields (two keys never alias in the BTreeMap unless they are the same key; the same key always aliases).
    #[kani::proof]
    #[kani::unwind(34)]
    fn c18_emit_key_cmp_equal_iff_eq() {
        let a = any_key();
        let b = any_key();
        let same = ref_same(&a, &b);
        assert!((a.cmp(&b) == Ordering::Equal) == (a == b));
        assert!((a == b) == same);
        assert!((a != b) == !same);
    }

    /// COMPLETE: antisymmetry / duality `a.cmp(b) == b.cmp(a).reverse()`.
    #[kani::proof]
    #[kani::unwind(34)]
    fn c18_emit_key_cmp_antisymmetric() {
        let a = any_key();
        let b = any_key();
        assert!(a.cmp(&b) == b.cmp(&a).reverse());
    }

    /// COMPLETE: `partial_cmp == Some(cmp)` and the comparison operators are the ones of `cmp`.
    #[kani::proof]
    #[kani::unwind(34)]
    fn c18_emit_key_partial_cmp_is_some_cmp() {
        let a = any_key();
        let b = any_key();
        let o = a.cmp(&b);
        assert!(a.partial_cmp(&b) == Some(o));
        assert!((a < b) == (o == Ordering::Less));
        assert!((a <= b) == (o != Ordering::Greater));
        assert!((a > b) == (o == Ordering::Greater));
        assert!((a >= b) == (o != Ordering::Less));
    }

    /// COMPLETE: transitivity of `<=` over three fully symbolic keys (with totality from the first harness this makes
    /// `cmp` a total order).
    #[kani::proof]
    #[kani::unwind(34)]
    fn c18_emit_key_cmp_transitive() {
        let a = any_key();
        let b = any_key();
        let c = any_key();
        if a.cmp(&b) != Ordering::Greater && b.cmp(&c) != Ordering::Greater {
            assert!(a.cmp(&c) != Ordering::Greater);
            if a.cmp(&b) == Ordering::Less || b.cmp(&c) == Ordering::Less {
                assert!(a.cmp(&c) == Ordering::Less);
            }
        }
    }

    /// COMPLETE (loop-free): constructors and the subkey derivation are the documented functions of their arguments.
    #[kani::proof]
    fn c18_emit_key_constructors() {
        let h: Hash = kani::any();
        let r: u32 = kani::any();
        let s: u32 = kani::any();
        let k0 = EmitKey::new(h, r);
        let k1 = EmitKey::with_subkey(h, r, s);
        assert!(k0.scope_hash == h && k0.rule_id == r && k0.subkey == 0);
        assert!(k1.scope_hash == h && k1.rule_id == r && k1.subkey == s);
        assert!(k0 == EmitKey::with_subkey(h, r, 0));
        let v = EmitKey::subkey_from_hash(&h);
        assert!(v == (h[0] as u32) | ((h[1] as u32) << 8) | ((h[2] as u32) << 16) | ((h[3] as u32) << 24));
    }

    /// reachability guard: a deliberately false claim must FAIL (two keys that differ only in the subkey are NOT equal
    /// under cmp) - the harnesses above are not vacuous and the subkey does take part in the order.
    #[kani::proof]
    #[kani::unwind(34)]
    fn guard_emit_key_subkey_matters() {
        let a = any_key();
        let mut b = a;
        b.subkey = kani::any();
        assert!(a.cmp(&b) == Ordering::Equal);
    }
}
