// appended to crates/warp-math/src/lib.rs in the scratch copy only (cfg(kani)).
// Free helper functions of the crate root. Run with --no-overflow-checks (float code).
#[cfg(kani)]
#[allow(unsafe_code, clippy::all, clippy::pedantic, clippy::nursery, missing_docs, static_mut_refs)]
mod verif_kani_lib {
    use super::*;
    fn any_f() -> f32 { f32::from_bits(kani::any()) }
    fn sqrtf_contract(x: f32) -> f32 {
        assert!(x.is_finite() && x > 0.0);
        let r: f32 = kani::any();
        kani::assume(r.is_finite() && r > 0.0);
        kani::assume(if x >= 1.0 { r >= 1.0 && r <= x } else { r >= x && r <= 1.0 });
        r
    }
    /// det_sqrt_f32: EVERY bit pattern: no panic; finite, >= 0, never -0 / NaN; +0 for NaN, +/-inf, <= 0;
    /// libm::sqrtf is only ever called with a finite positive argument (asserted inside the contract stub)
    #[kani::proof]
    #[kani::stub(libm::sqrtf, sqrtf_contract)]
    fn c19_det_sqrt_total() {
        let x = any_f();
        let r = det_sqrt_f32(x);
        assert!(r.is_finite() && r >= 0.0 && r.to_bits() != 0x8000_0000);
        if !x.is_finite() || x <= 0.0 { assert!(r.to_bits() == 0); }
    }
    /// deg_to_rad / rad_to_deg: total for every bit pattern, finite inputs never give NaN, sign preserved
    #[kani::proof] fn c19_deg_rad_total() {
        let x = any_f();
        let r = deg_to_rad(x); let d = rad_to_deg(x);
        if x.is_finite() { assert!(!r.is_nan() && !d.is_nan() && r.is_finite()); }
        if x > 0.0 { assert!(r >= 0.0 && d > 0.0); }
        if x < 0.0 { assert!(r <= 0.0 && d < 0.0); }
    }
    /// clamp on its documented no-panic domain restricted to non-NaN bounds (min <= max): no panic, result within
    /// [min, max] for non-NaN value, NaN for NaN value
    #[kani::proof] fn c19_clamp_total_ordered_bounds() {
        let v = any_f(); let lo = any_f(); let hi = any_f();
        kani::assume(lo <= hi);
        let r = clamp(v, lo, hi);
        if v.is_nan() { assert!(r.is_nan()); } else { assert!(r >= lo && r <= hi); }
    }
    /// clamp exactly as documented: panics only if min > max; "if value, min or max is NaN the result is NaN".
    #[kani::proof] fn c19_clamp_nan_bounds_as_documented() {
        let v = any_f(); let lo = any_f(); let hi = any_f();
        kani::assume(!(lo > hi));
        let r = clamp(v, lo, hi);
        if v.is_nan() || lo.is_nan() || hi.is_nan() { assert!(r.is_nan()); }
    }
    /// reachability guard (must FAIL)
    #[kani::proof]
    #[kani::stub(libm::sqrtf, sqrtf_contract)]
    fn guard_det_sqrt_always_zero() { assert!(det_sqrt_f32(any_f()) == 0.0); }
}
