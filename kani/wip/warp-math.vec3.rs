// appended to crates/warp-math/src/vec3.rs in the scratch copy only (cfg(kani)).
// Vec3 is built on RAW f32 (not F32Scalar): the claims are totality (no panic for ANY bit pattern),
// functional determinism, agreement of the operator impls with the named methods, and the documented
// degenerate-case result of normalize. Run with --no-overflow-checks (float code).
#[cfg(kani)]
#[allow(unsafe_code, clippy::all, clippy::pedantic, clippy::nursery, missing_docs, static_mut_refs)]
mod verif_kani_vec3 {
    use super::*;
    fn any_f() -> f32 { f32::from_bits(kani::any()) }
    fn any_v() -> Vec3 { Vec3::from([any_f(), any_f(), any_f()]) }
    /// same float: identical bits, or both NaN (NaN payloads are not tracked)
    fn same(a: f32, b: f32) -> bool { a.to_bits() == b.to_bits() || (a.is_nan() && b.is_nan()) }
    fn same_v(a: Vec3, b: Vec3) -> bool {
        same(a.component(0), b.component(0)) && same(a.component(1), b.component(1)) && same(a.component(2), b.component(2))
    }
    fn is_pos_zero(v: Vec3) -> bool { v.component(0).to_bits() == 0 && v.component(1).to_bits() == 0 && v.component(2).to_bits() == 0 }

    /// contract model of libm::sqrtf on its only call path (det_sqrt_f32 passes finite x > 0):
    /// result finite, > 0, between 1 and x (x >= 1) or between x and 1 (x < 1) - true of a correctly rounded sqrt
    fn sqrtf_contract(x: f32) -> f32 {
        assert!(x.is_finite() && x > 0.0);
        let r: f32 = kani::any();
        kani::assume(r.is_finite() && r > 0.0);
        kani::assume(if x >= 1.0 { r >= 1.0 && r <= x } else { r >= x && r <= 1.0 });
        r
    }

    /// constructors/accessors are bit-transparent for every bit pattern
    #[kani::proof] fn c19_vec3_ctor_roundtrip() {
        let a: [u32; 3] = [kani::any(), kani::any(), kani::any()];
        let v = Vec3::new(f32::from_bits(a[0]), f32::from_bits(a[1]), f32::from_bits(a[2]));
        let w = Vec3::from([f32::from_bits(a[0]), f32::from_bits(a[1]), f32::from_bits(a[2])]);
        let va = v.to_array(); let wa: [f32; 3] = w.into();
        assert!(va[0].to_bits() == a[0] && va[1].to_bits() == a[1] && va[2].to_bits() == a[2]);
        assert!(wa[0].to_bits() == a[0] && wa[1].to_bits() == a[1] && wa[2].to_bits() == a[2]);
        assert!(is_pos_zero(Vec3::zero()) && is_pos_zero(Vec3::ZERO));
    }
    /// add/sub: total for all 2^192 operand patterns and exactly the component-wise f32 operation; all
    /// operator forms (+ - by value / by reference, += -=) return the same bits as the named methods
    #[kani::proof] fn c19_vec3_add_sub_componentwise_ops_agree() {
        let a = any_v(); let b = any_v();
        let s = a.add(&b); let d = a.sub(&b);
        assert!(same(s.component(0), a.component(0) + b.component(0)) && same(s.component(1), a.component(1) + b.component(1)) && same(s.component(2), a.component(2) + b.component(2)));
        assert!(same(d.component(0), a.component(0) - b.component(0)) && same(d.component(1), a.component(1) - b.component(1)) && same(d.component(2), a.component(2) - b.component(2)));
        assert!(same_v(a + b, s) && same_v(&a + &b, s));
        assert!(same_v(a - b, d) && same_v(&a - &b, d));
        let mut x = a; x += b; assert!(same_v(x, s));
        let mut y = a; y -= b; assert!(same_v(y, d));
    }
    /// scale and every scalar-multiplication operator form: total for all operand patterns (no panic)
    #[kani::proof] fn c19_vec3_scale_mul_total() {
        let a = any_v(); let k = any_f();
        let _ = a.scale(k); let _ = a * k; let _ = &a * k; let _ = k * a; let _ = k * &a;
        let mut z = a; z *= k;
    }
    /// dot / cross / length_squared: total for all operand patterns (no panic, no out-of-bounds component index)
    #[kani::proof] fn c19_vec3_dot_cross_total() {
        let a = any_v(); let b = any_v();
        let _ = a.dot(&b); let _ = a.cross(&b); let _ = a.length_squared();
    }
    /// length: for EVERY component bit pattern (NaN, +/-inf, subnormal, overflowed squares) no panic and a
    /// finite, non-negative, non-NaN, never -0 result
    #[kani::proof]
    #[kani::stub(libm::sqrtf, sqrtf_contract)]
    fn c19_vec3_length_total() {
        let a = any_v();
        let l = a.length();
        assert!(l.is_finite() && l >= 0.0 && l.to_bits() != 0x8000_0000);
    }
    /// normalize: EVERY component bit pattern: no panic; the documented sentinel (+0,+0,+0) for the zero
    /// vector and whenever a component is NaN or infinite
    #[kani::proof]
    #[kani::stub(libm::sqrtf, sqrtf_contract)]
    fn c19_vec3_normalize_total_degenerate_sentinel() {
        let a = any_v();
        let n = a.normalize();
        if !(a.component(0).is_finite() && a.component(1).is_finite() && a.component(2).is_finite()) { assert!(is_pos_zero(n)); }
        if a.component(0) == 0.0 && a.component(1) == 0.0 && a.component(2) == 0.0 { assert!(is_pos_zero(n)); }
    }

    /// reachability guard (must FAIL): a finite non-zero vector can normalize to the zero sentinel
    #[kani::proof]
    #[kani::stub(libm::sqrtf, sqrtf_contract)]
    fn guard_vec3_normalize_nonzero_stays_nonzero() {
        let a = any_v();
        kani::assume(a.component(0).is_finite() && a.component(1).is_finite() && a.component(2).is_finite());
        kani::assume(a.component(0) != 0.0);
        assert!(!is_pos_zero(a.normalize()));
    }
}
