// appended to crates/warp-math/src/prng.rs in the scratch copy only (cfg(kani)).
// Integer-only harnesses (all but the next_f32 ones) run WITH overflow checks.
#[cfg(kani)]
#[allow(unsafe_code, clippy::all, clippy::pedantic, clippy::nursery, missing_docs, static_mut_refs)]
mod verif_kani_prng {
    use super::*;

    fn any_prng() -> Prng { Prng { state: [kani::any(), kani::any()] } }
    /// canonical form of the float scalar type: never -0, never subnormal, NaN only as 0x7fc00000
    fn canonical(bits: u32) -> bool {
        let f = f32::from_bits(bits);
        bits != 0x8000_0000 && !f.is_subnormal() && (!f.is_nan() || bits == 0x7fc0_0000)
    }

    // ---- state transition -------------------------------------------------------------------------
    /// next_u64 is a pure function of the state: equal states -> equal outputs and equal successors
    #[kani::proof] fn c19_prng_next_u64_pure() {
        let mut a = any_prng();
        let mut b = Prng { state: a.state };
        let s = a.state;
        let ra = a.next_u64(); let rb = b.next_u64();
        assert!(ra == rb && a.state == b.state);
        // the xoroshiro128+ output function and successor, written out independently
        assert!(ra == s[0].wrapping_add(s[1]));
        let t = s[0] ^ s[1];
        assert!(a.state[0] == (s[0].rotate_left(55) ^ t ^ (t << 14)) && a.state[1] == t.rotate_left(36));
    }
    /// the all-zero sink is never entered from a non-zero state (every (s0,s1) != (0,0))
    #[kani::proof] fn c19_prng_nonzero_state_preserved() {
        let mut a = any_prng();
        kani::assume(a.state[0] != 0 || a.state[1] != 0);
        let _ = a.next_u64();
        assert!(a.state[0] != 0 || a.state[1] != 0);
    }
    /// from_seed: never the all-zero state, identity on non-zero seed pairs (all 2^128 seed pairs)
    #[kani::proof] fn c19_prng_from_seed_nonzero() {
        let s0: u64 = kani::any(); let s1: u64 = kani::any();
        let p = Prng::from_seed(s0, s1);
        assert!(p.state[0] != 0 || p.state[1] != 0);
        if s0 != 0 || s1 != 0 { assert!(p.state[0] == s0 && p.state[1] == s1); }
        let q = Prng::from_seed(s0, s1);
        assert!(p.state == q.state);
    }
    /// from_seed_u64: never the all-zero state, for every 64-bit seed
    #[kani::proof] fn c19_prng_from_seed_u64_nonzero() {
        let s: u64 = kani::any();
        let p = Prng::from_seed_u64(s);
        assert!(p.state[0] != 0 || p.state[1] != 0);
    }

    // ---- next_f32 -----------------------------------------------------------------------------------
    /// every state: result in [0, 1), finite, never -0, never subnormal (a multiple of 2^-23), and a
    /// function of the high 23 bits of the raw output only
    #[kani::proof] fn c19_prng_next_f32_unit_interval_canonical() {
        let mut a = any_prng();
        let mut b = Prng { state: a.state };
        let raw = b.next_u64();
        let v = a.next_f32();
        assert!(v >= 0.0 && v < 1.0);
        assert!(v.is_finite() && canonical(v.to_bits()));
        assert!(a.state == b.state);
        // exact value: (raw >> 41) * 2^-23
        assert!(v == ((raw >> 41) as u32) as f32 * (1.0 / 8_388_608.0));
    }

    // ---- next_int -----------------------------------------------------------------------------------
    // Over-approximating model of the generator for the range proof: the FIRST draw of next_u64 is an
    // ARBITRARY u64 (accepted or rejected by the rejection test); every later draw is 0, which the rejection
    // test always accepts (bound >= 2^63 > 0), so the loop is cut after at most one rejected candidate. The
    // returned value depends only on the accepted candidate, and every accepted candidate value (any u64 <
    // bound, via the first draw) is covered, so the range / no-overflow claim holds for every terminating
    // execution of the real loop. Termination of the rejection loop itself is NOT proved.
    static mut DRAWS: u32 = 0;
    fn next_u64_any(_p: &mut Prng) -> u64 {
        unsafe {
            DRAWS += 1;
            if DRAWS >= 2 { return 0; }
        }
        kani::any()
    }
    /// all min <= max (incl. i32::MIN..=i32::MAX and min == max), any generator output sequence:
    /// no panic, no arithmetic overflow (checks ON), result within [min, max]
    #[kani::proof]
    #[kani::unwind(3)]
    #[kani::stub(Prng::next_u64, next_u64_any)]
    fn c19_prng_next_int_in_range_any_output() {
        let min: i32 = kani::any(); let max: i32 = kani::any();
        kani::assume(min <= max);
        let mut p = any_prng();
        let r = p.next_int(min, max);
        assert!(min <= r && r <= max);
    }
    /// the two corner cases, concretely: full span (2^32, power-of-two path) and the single-value span
    #[kani::proof]
    #[kani::unwind(3)]
    fn c19_prng_next_int_full_span_and_single_value() {
        let mut p = any_prng();
        let s = p.state;
        let mut q = Prng { state: s };
        let raw = q.next_u64();
        let r = p.next_int(i32::MIN, i32::MAX);
        // full span: the low 32 bits of the raw output re-biased, exactly one draw
        assert!(r == ((raw & 0xffff_ffff) as i64 + i64::from(i32::MIN)) as i32);
        assert!(p.state[0] == q.state[0] && p.state[1] == q.state[1]);
        let m: i32 = kani::any();
        let before = p.state;
        assert!(p.next_int(m, m) == m);
        // single-value span consumes no randomness
        assert!(p.state[0] == before[0] && p.state[1] == before[1]);
    }
    // ---- guards (must FAIL) -----------------------------------------------------------------------------
    /// the upper end of the range is reachable (so the in-range harness is not vacuous)
    #[kani::proof]
    #[kani::unwind(3)]
    #[kani::stub(Prng::next_u64, next_u64_any)]
    fn guard_prng_next_int_never_max() {
        let min: i32 = kani::any(); let max: i32 = kani::any();
        kani::assume(min < max);
        let mut p = any_prng();
        let r = p.next_int(min, max);
        assert!(r < max);
    }
    /// 0.0 is a reachable output of next_f32
    #[kani::proof] fn guard_prng_next_f32_strictly_positive() {
        let mut a = any_prng();
        assert!(a.next_f32() > 0.0);
    }
}
