// appended to crates/warp-math/src/scalar.rs in the scratch copy only (cfg(kani)), after warp-math.scalar.rs.
// Remaining public surface of F32Scalar (sin/cos/sin_cos wrappers, constants, Eq/Ord) and the DFix64 wrappers.
#[cfg(kani)]
#[allow(unsafe_code, clippy::all, clippy::pedantic, clippy::nursery, missing_docs, static_mut_refs)]
mod verif_kani_scalar2 {
    use super::*;
    /// canonical form of the float scalar type: never -0, never subnormal, NaN only as 0x7fc00000
    fn canonical(bits: u32) -> bool {
        let f = f32::from_bits(bits);
        bits != 0x8000_0000 && !f.is_subnormal() && (!f.is_nan() || bits == 0x7fc0_0000)
    }
    fn any_s() -> F32Scalar { F32Scalar::new(f32::from_bits(kani::any())) }
    fn bits(s: F32Scalar) -> u32 { s.to_f32().to_bits() }

    /// the trig backend replaced by "returns ANY pair of f32 bit patterns" (strict over-approximation):
    /// the wrappers must canonicalise whatever it returns
    fn sin_cos_any(_a: f32) -> (f32, f32) { (f32::from_bits(kani::any()), f32::from_bits(kani::any())) }

    #[kani::proof]
    #[kani::stub(crate::trig::sin_cos_f32, sin_cos_any)]
    fn c19_sin_cos_wrappers_canonical() {
        let x = any_s();
        assert!(canonical(bits(Scalar::sin(x))));
        assert!(canonical(bits(Scalar::cos(x))));
        let (s, c) = Scalar::sin_cos(x);
        assert!(canonical(bits(s)) && canonical(bits(c)));
    }
    /// constants and to_f32: ZERO/ONE are +0 / 1.0; to_f32 of any scalar is canonical
    #[kani::proof] fn c19_consts_and_to_f32_canonical() {
        assert!(bits(F32Scalar::ZERO) == 0 && bits(F32Scalar::ONE) == 0x3f80_0000);
        assert!(canonical(any_s().to_f32().to_bits()));
    }
    /// Eq is bit equality of the canonical representation (reflexive incl. NaN), for all pairs
    #[kani::proof] fn c19_eq_iff_same_bits() {
        let a = any_s(); let b = any_s();
        assert!((a == b) == (bits(a) == bits(b)));
        assert!(a == a);
        assert!((a != b) == (bits(a) != bits(b)));
    }
    /// Ord is total and antisymmetric, agrees with PartialOrd and Eq, and with the IEEE order on non-NaN values;
    /// the canonical NaN is the greatest element
    #[kani::proof] fn c19_ord_total_antisymmetric_ieee() {
        let a = any_s(); let b = any_s();
        let ab = a.cmp(&b); let ba = b.cmp(&a);
        assert!(ab == ba.reverse());
        assert!(a.partial_cmp(&b) == Some(ab));
        assert!((ab == Ordering::Equal) == (a == b));
        let (x, y) = (a.to_f32(), b.to_f32());
        if !x.is_nan() && !y.is_nan() {
            assert!((ab == Ordering::Less) == (x < y) && (ab == Ordering::Greater) == (x > y) && (ab == Ordering::Equal) == (x == y));
        }
        if x.is_nan() { assert!(ab != Ordering::Less); }
        if x.is_nan() && !y.is_nan() { assert!(ab == Ordering::Greater); }
    }
    /// Ord is transitive (all triples)
    #[kani::proof] fn c19_ord_transitive() {
        let a = any_s(); let b = any_s(); let c = any_s();
        if a.cmp(&b) != Ordering::Greater && b.cmp(&c) != Ordering::Greater { assert!(a.cmp(&c) != Ordering::Greater); }
        if a == b && b == c { assert!(a == c); }
    }
    /// reachability guard (must FAIL): Eq is not IEEE equality (NaN == NaN here)
    #[kani::proof] fn guard_eq_is_ieee_eq() {
        let a = any_s(); let b = any_s();
        assert!((a == b) == (a.to_f32() == b.to_f32()));
    }
}
#[cfg(all(kani, feature = "det_fixed"))]
#[allow(clippy::all, clippy::pedantic, clippy::nursery)]
mod verif_kani_int2 {
    use super::*;
    // integer-only: run WITH overflow checks
    /// DFix64 wrappers: from_raw/raw round trip, constants, + - neg are exactly the raw saturating functions,
    /// derived Eq/Ord are the integer order of raw (all i64 pairs)
    #[kani::proof] fn c19_dfix_wrappers_agree_with_raw() {
        let a: i64 = kani::any(); let b: i64 = kani::any();
        let (x, y) = (DFix64::from_raw(a), DFix64::from_raw(b));
        assert!(x.raw() == a);
        assert!(DFix64::ZERO.raw() == 0 && DFix64::ONE.raw() == 1i64 << 32);
        assert!(<DFix64 as Scalar>::zero().raw() == 0 && <DFix64 as Scalar>::one().raw() == 1i64 << 32);
        assert!((x + y).raw() == DFix64::saturating_add_raw(a, b));
        assert!((x - y).raw() == DFix64::saturating_sub_raw(a, b));
        assert!((-x).raw() == DFix64::saturating_neg_raw(a));
        assert!((x == y) == (a == b) && (x < y) == (a < b) && x.cmp(&y) == a.cmp(&b));
    }
    /// fixed_q32_32::to_f32 for ALL i64: never -0, never subnormal, never NaN/inf, sign-faithful, |value| <= 2^31
    #[kani::proof] fn c19_fixed_to_f32_canonical_sign_range() {
        let raw: i64 = kani::any();
        let f = crate::fixed_q32_32::to_f32(raw);
        assert!(f.is_finite() && !f.is_subnormal() && f.to_bits() != 0x8000_0000);
        assert!((raw > 0) == (f > 0.0) && (raw < 0) == (f < 0.0) && (raw == 0) == (f.to_bits() == 0));
        assert!(f >= -2147483648.0 && f <= 2147483648.0);
        assert!(<DFix64 as Scalar>::to_f32(DFix64::from_raw(raw)).to_bits() == f.to_bits());
    }
    /// f32 -> Q32.32 -> f32 is the identity (bit-exact) on every f32 that Q32.32 represents exactly:
    /// 2^-9 <= |x| < 2^31 (all 24 mantissa bits at or above 2^-32)
    #[kani::proof] fn c19_fixed_roundtrip_f32_exact_range() {
        let x = f32::from_bits(kani::any());
        kani::assume(x.is_finite() && x.abs() >= 0.001953125 && x.abs() < 2147483648.0);
        let raw = crate::fixed_q32_32::from_f32(x);
        assert!(crate::fixed_q32_32::to_f32(raw).to_bits() == x.to_bits());
        assert!(<DFix64 as Scalar>::from_f32(x).raw() == raw);
    }
    /// Q32.32 -> f32 -> Q32.32 is the identity on every raw value with at most 24 significant bits
    #[kani::proof] fn c19_fixed_roundtrip_raw_24bit() {
        let m: i64 = kani::any(); let sh: u32 = kani::any();
        kani::assume(m > -(1i64 << 24) && m < (1i64 << 24) && sh <= 38);
        let raw = m << sh;
        assert!(crate::fixed_q32_32::from_f32(crate::fixed_q32_32::to_f32(raw)) == raw);
    }
    /// from_f32 is monotone: x <= y => from_f32(x) <= from_f32(y), all non-NaN pairs (incl. +/-inf, subnormals)
    #[kani::proof] fn c19_fixed_from_f32_monotone() {
        let x = f32::from_bits(kani::any()); let y = f32::from_bits(kani::any());
        kani::assume(x <= y);
        assert!(crate::fixed_q32_32::from_f32(x) <= crate::fixed_q32_32::from_f32(y));
    }
    /// reachability guard (must FAIL): the round trip is NOT exact below 2^-9
    #[kani::proof] fn guard_fixed_roundtrip_exact_everywhere() {
        let x = f32::from_bits(kani::any());
        kani::assume(x.is_finite() && x.abs() < 2147483648.0);
        assert!(crate::fixed_q32_32::to_f32(crate::fixed_q32_32::from_f32(x)) == x);
    }
}
