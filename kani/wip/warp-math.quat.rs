// appended to crates/warp-math/src/quat.rs in the scratch copy only (cfg(kani)).
// Quat is built on RAW f32. NOTE: Quat::new debug_asserts finiteness; Kani compiles with debug assertions ON,
// so "no panic" below includes "no non-finite component is ever passed to Quat::new".
// Run with --no-overflow-checks (float code).
#[cfg(kani)]
#[allow(unsafe_code, clippy::all, clippy::pedantic, clippy::nursery, missing_docs, static_mut_refs)]
mod verif_kani_quat {
    use super::*;
    fn any_f() -> f32 { f32::from_bits(kani::any()) }
    fn fin(x: f32) -> bool { x.is_finite() }
    /// any bit pattern at all, via the unchecked array conversion
    fn any_q() -> Quat { Quat::from([any_f(), any_f(), any_f(), any_f()]) }
    fn all_finite(q: &Quat) -> bool { fin(q.component(0)) && fin(q.component(1)) && fin(q.component(2)) && fin(q.component(3)) }
    fn is_identity(q: &Quat) -> bool {
        q.component(0).to_bits() == 0 && q.component(1).to_bits() == 0 && q.component(2).to_bits() == 0 && q.component(3).to_bits() == 0x3f80_0000
    }
    /// contract model of libm::sqrtf (see warp-math.vec3.rs)
    fn sqrtf_contract(x: f32) -> f32 {
        assert!(x.is_finite() && x > 0.0);
        let r: f32 = kani::any();
        kani::assume(r.is_finite() && r > 0.0);
        kani::assume(if x >= 1.0 { r >= 1.0 && r <= x } else { r >= x && r <= 1.0 });
        r
    }
    /// tighter model for the unit-length consequences: additionally r*r within 2^-20 (relative) of x, with the
    /// product taken exactly in f64 (a correctly rounded sqrtf satisfies |r*r/x - 1| < 2^-22)
    fn sqrtf_contract_tight(x: f32) -> f32 {
        let r = sqrtf_contract(x);
        let (rd, xd) = (r as f64, x as f64);
        kani::assume(rd * rd >= xd * 0.999999 && rd * rd <= xd * 1.000001);
        r
    }
    /// documented contract of trig::sin_cos_f32 for FINITE angles (finite values in [-1,1], never -0);
    /// the obligation "the caller passes a finite angle" is asserted
    fn sin_cos_contract(angle: f32) -> (f32, f32) {
        assert!(angle.is_finite());
        let s: f32 = kani::any(); let c: f32 = kani::any();
        kani::assume(s >= -1.0 && s <= 1.0 && c >= -1.0 && c <= 1.0);
        kani::assume(s.to_bits() != 0x8000_0000 && c.to_bits() != 0x8000_0000);
        (s, c)
    }

    /// constructors are bit-transparent; identity is (+0,+0,+0,1)
    #[kani::proof] fn c19_quat_ctor_roundtrip() {
        let a: [u32; 4] = [kani::any(), kani::any(), kani::any(), kani::any()];
        let q = Quat::from([f32::from_bits(a[0]), f32::from_bits(a[1]), f32::from_bits(a[2]), f32::from_bits(a[3])]);
        let u = Quat::new_unchecked(f32::from_bits(a[0]), f32::from_bits(a[1]), f32::from_bits(a[2]), f32::from_bits(a[3]));
        let qa = q.to_array(); let ua = u.to_array();
        assert!(qa[0].to_bits() == a[0] && qa[1].to_bits() == a[1] && qa[2].to_bits() == a[2] && qa[3].to_bits() == a[3]);
        assert!(ua[0].to_bits() == a[0] && ua[1].to_bits() == a[1] && ua[2].to_bits() == a[2] && ua[3].to_bits() == a[3]);
        assert!(is_identity(&Quat::identity()));
    }
    /// normalize: EVERY component bit pattern (NaN, inf, subnormal, overflowing): no panic (no non-finite value
    /// reaches Quat::new), finite result; identity when a component is NaN/inf or all components are zero
    #[kani::proof]
    #[kani::stub(libm::sqrtf, sqrtf_contract_tight)]
    fn c19_quat_normalize_total_finite() {
        let q = any_q();
        let n = q.normalize();
        assert!(all_finite(&n));
        if !all_finite(&q) { assert!(is_identity(&n)); }
        if q.component(0) == 0.0 && q.component(1) == 0.0 && q.component(2) == 0.0 && q.component(3) == 0.0 { assert!(is_identity(&n)); }
    }
    /// to_mat4: EVERY component bit pattern: no panic, 16 finite entries, homogeneous last row/column
    #[kani::proof]
    #[kani::stub(libm::sqrtf, sqrtf_contract_tight)]
    fn c19_quat_to_mat4_total_finite() {
        let q = any_q();
        let m = q.to_mat4().to_array();
        let mut ok = true;
        let mut i = 0;
        while i < 16 { ok = ok && m[i].is_finite(); i += 1; }
        assert!(ok);
        assert!(m[3].to_bits() == 0 && m[7].to_bits() == 0 && m[11].to_bits() == 0 && m[12].to_bits() == 0 && m[13].to_bits() == 0 && m[14].to_bits() == 0 && m[15] == 1.0);
    }
    /// multiply on the magnitude-bounded domain |component| <= 1e18: no panic, finite result (BOUNDED domain)
    #[kani::proof]
    fn c19_quat_multiply_total_bounded_1e18() {
        let a = any_q(); let b = any_q();
        let small = |q: &Quat| { let m = 1.0e18_f32; q.component(0).abs() <= m && q.component(1).abs() <= m && q.component(2).abs() <= m && q.component(3).abs() <= m };
        kani::assume(small(&a) && small(&b));
        let p = a.multiply(&b);
        assert!(all_finite(&p));
    }
    /// multiply for ALL finite operands (doc: "Inputs need not be normalized"): no panic.
    #[kani::proof]
    fn c19_quat_multiply_total_all_finite() {
        let a = any_q(); let b = any_q();
        kani::assume(all_finite(&a) && all_finite(&b));
        let _ = a.multiply(&b);
    }
    /// from_axis_angle on the magnitude-bounded domain |axis component| <= 1e18, finite angle: no panic,
    /// finite result, identity for the zero axis; sin_cos_f32 replaced by its documented contract
    #[kani::proof]
    #[kani::stub(libm::sqrtf, sqrtf_contract)]
    #[kani::stub(crate::trig::sin_cos_f32, sin_cos_contract)]
    fn c19_quat_from_axis_angle_total_bounded_1e18() {
        let ax = [any_f(), any_f(), any_f()];
        let angle = any_f();
        kani::assume(ax[0].abs() <= 1.0e18 && ax[1].abs() <= 1.0e18 && ax[2].abs() <= 1.0e18 && angle.is_finite());
        let axis = Vec3::from(ax);
        let q = Quat::from_axis_angle(axis, angle);
        assert!(all_finite(&q));
        if ax[0] == 0.0 && ax[1] == 0.0 && ax[2] == 0.0 { assert!(is_identity(&q)); }
    }
    /// from_axis_angle for ALL finite axes and finite angles: no panic, finite result
    #[kani::proof]
    #[kani::stub(libm::sqrtf, sqrtf_contract)]
    #[kani::stub(crate::trig::sin_cos_f32, sin_cos_contract)]
    fn c19_quat_from_axis_angle_total_all_finite() {
        let ax = [any_f(), any_f(), any_f()];
        let angle = any_f();
        kani::assume(ax[0].is_finite() && ax[1].is_finite() && ax[2].is_finite() && angle.is_finite());
        let q = Quat::from_axis_angle(Vec3::from(ax), angle);
        assert!(all_finite(&q));
    }

    /// reachability guard (must FAIL): normalize is not the identity function on finite quaternions
    #[kani::proof]
    #[kani::stub(libm::sqrtf, sqrtf_contract)]
    fn guard_quat_normalize_is_noop() {
        let q = any_q();
        kani::assume(all_finite(&q));
        let n = q.normalize();
        assert!(n.component(3).to_bits() == q.component(3).to_bits());
    }
}
