// appended to crates/warp-math/src/mat4.rs in the scratch copy only (cfg(kani)).
// Mat4 is built on RAW f32. Run with --no-overflow-checks (float code).
#[cfg(kani)]
#[allow(unsafe_code, clippy::all, clippy::pedantic, clippy::nursery, missing_docs, static_mut_refs)]
mod verif_kani_mat4 {
    use super::*;
    fn any_f() -> f32 { f32::from_bits(kani::any()) }
    fn any_m() -> Mat4 { let a: [u32; 16] = kani::any(); let mut d = [0.0f32; 16]; let mut i = 0; while i < 16 { d[i] = f32::from_bits(a[i]); i += 1; } Mat4::from(d) }
    fn same(a: f32, b: f32) -> bool { a.to_bits() == b.to_bits() || (a.is_nan() && b.is_nan()) }
    fn sin_cos_contract(angle: f32) -> (f32, f32) {
        assert!(angle.is_finite());
        let s: f32 = kani::any(); let c: f32 = kani::any();
        kani::assume(s >= -1.0 && s <= 1.0 && c >= -1.0 && c <= 1.0);
        kani::assume(s.to_bits() != 0x8000_0000 && c.to_bits() != 0x8000_0000);
        (s, c)
    }
    fn no_neg_zero_finite(m: &[f32; 16]) -> bool { let mut ok = true; let mut i = 0; while i < 16 { ok = ok && m[i].is_finite() && m[i].to_bits() != 0x8000_0000; i += 1; } ok }

    /// constructors: bit-transparent / documented layout, for every bit pattern
    #[kani::proof]
    #[kani::unwind(17)]
    fn c19_mat4_ctor_layout() {
        let (x, y, z) = (any_f(), any_f(), any_f());
        let t = Mat4::translation(x, y, z).to_array();
        assert!(t[12].to_bits() == x.to_bits() && t[13].to_bits() == y.to_bits() && t[14].to_bits() == z.to_bits() && t[15] == 1.0 && t[0] == 1.0 && t[5] == 1.0 && t[10] == 1.0);
        let s = Mat4::scale(x, y, z).to_array();
        assert!(s[0].to_bits() == x.to_bits() && s[5].to_bits() == y.to_bits() && s[10].to_bits() == z.to_bits() && s[15] == 1.0);
        let i = Mat4::identity().to_array(); let d = Mat4::default().to_array();
        let mut k = 0; while k < 16 { assert!(i[k].to_bits() == (if k % 5 == 0 { 0x3f80_0000 } else { 0 }) && d[k].to_bits() == i[k].to_bits()); k += 1; }
    }
    /// rotation_x/y/z for every finite angle (sin_cos_f32 replaced by its documented contract): no panic,
    /// all 16 entries finite and never -0 (the negated sine is re-canonicalised)
    #[kani::proof]
    #[kani::unwind(17)]
    #[kani::stub(crate::trig::sin_cos_f32, sin_cos_contract)]
    fn c19_mat4_rotation_xyz_finite_no_neg_zero() {
        let a = any_f();
        kani::assume(a.is_finite());
        assert!(no_neg_zero_finite(&Mat4::rotation_x(a).to_array()));
        assert!(no_neg_zero_finite(&Mat4::rotation_y(a).to_array()));
        assert!(no_neg_zero_finite(&Mat4::rotation_z(a).to_array()));
    }
    /// transform_point / transform_direction / multiply and every operator form of multiply: total for every
    /// matrix and vector bit pattern (no out-of-bounds index in at(), no panic); the loops of multiply are concrete (4x4x4)
    #[kani::proof]
    #[kani::unwind(17)]
    fn c19_mat4_transform_multiply_total() {
        let m = any_m(); let b = any_m();
        let v = Vec3::from([any_f(), any_f(), any_f()]);
        let _ = m.transform_point(&v);
        let _ = m.transform_direction(&v);
        let _ = m.multiply(&b); let _ = m * b; let _ = &m * &b; let _ = m * &b; let _ = &m * b;
        let mut c = m; c *= b; c *= &b;
    }
    /// reachability guard (must FAIL): rotation entries are not all non-negative
    #[kani::proof]
    #[kani::unwind(17)]
    #[kani::stub(crate::trig::sin_cos_f32, sin_cos_contract)]
    fn guard_mat4_rotation_entries_nonneg() {
        let a = any_f();
        kani::assume(a.is_finite());
        let m = Mat4::rotation_z(a).to_array();
        assert!(m[4] >= 0.0);
    }
}
