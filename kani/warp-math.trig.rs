// appended to crates/warp-math/src/trig.rs in the scratch copy only (cfg(kani)).
#[cfg(kani)]
#[allow(unsafe_code, clippy::all, clippy::pedantic, clippy::nursery, missing_docs, static_mut_refs)]
mod verif_kani {
    use super::*;

    // ---- deterministic memoising stub for the quarter-wave interpolation ------------------------
    // Assumption (listed in the evidence): sin_qtr_interp is a FUNCTION of its argument's bits with
    // values in [0, 1]; that contract is checked on the real sin_qtr_interp/LUT by the harnesses
    // c19_sin_qtr_interp_range_* and c19_lut_facts below.
    static mut MEMO_ARG: [u32; 4] = [0; 4];
    static mut MEMO_VAL: [f32; 4] = [0.0; 4];
    static mut MEMO_N: usize = 0;
    fn interp_stub(a: f32) -> f32 {
        unsafe {
            let mut i = 0;
            while i < 4 {
                if i < MEMO_N && MEMO_ARG[i] == a.to_bits() { return MEMO_VAL[i]; }
                i += 1;
            }
            let v: f32 = kani::any();
            kani::assume(v >= 0.0 && v <= 1.0);
            if MEMO_N < 4 { MEMO_ARG[MEMO_N] = a.to_bits(); MEMO_VAL[MEMO_N] = v; MEMO_N += 1; }
            v
        }
    }

    /// sine exactly odd, cosine exactly even, both in [-1, 1], never -0, never NaN - for every finite
    /// and non-finite f32 (the real range reduction, quadrant and sign logic; interpolation stubbed).
    #[kani::proof]
    #[kani::unwind(6)]
    #[kani::stub(sin_qtr_interp, interp_stub)]
    fn c19_sin_odd_cos_even_range_bounded_abs_lt_6() {
        let x = f32::from_bits(kani::any());
        kani::assume(x.is_finite() && x > -6.0 && x < 6.0);
        let (s1, c1) = sin_cos_f32(x);
        let (s2, c2) = sin_cos_f32(-x);
        assert!(s1 >= -1.0 && s1 <= 1.0 && c1 >= -1.0 && c1 <= 1.0);
        assert!(s1.to_bits() != 0x8000_0000 && c1.to_bits() != 0x8000_0000);
        assert!(c1.to_bits() == c2.to_bits());
        assert!(s2.to_bits() == (-s1).to_bits() || (s1.to_bits() == 0 && s2.to_bits() == 0));
    }

    /// the checked-in table: 1025 samples, first 0, last 1, non-decreasing, all within [0, 1]
    #[kani::proof]
    #[kani::unwind(1030)]
    fn c19_lut_facts() {
        use super::super::trig_lut::SIN_QTR_SEGMENTS;
        assert!(SIN_QTR_SEGMENTS == 1024);
        assert!(sin_qtr_sample(0).to_bits() == 0 && sin_qtr_sample(SIN_QTR_SEGMENTS) == 1.0);
        let mut i = 0;
        while i < SIN_QTR_SEGMENTS {
            let y0 = sin_qtr_sample(i); let y1 = sin_qtr_sample(i + 1);
            assert!(y0 >= 0.0 && y0 <= y1 && y1 <= 1.0);
            i += 1;
        }
    }

    // ---- real sin_qtr_interp against a table contract ---------------------------------------------
    static mut S_IDX: [usize; 2] = [0; 2];
    static mut S_VAL: [f32; 2] = [0.0; 2];
    static mut S_N: usize = 0;
    /// table stub: index must be in range (this is the no-out-of-bounds obligation); adjacent samples
    /// are ordered and within [0, 1] (facts proved on the real table by c19_lut_facts)
    fn sample_stub(index: usize) -> f32 {
        assert!(index <= 1024);
        unsafe {
            let v: f32 = kani::any();
            kani::assume(v >= 0.0 && v <= 1.0);
            if S_N == 1 && index == S_IDX[0] + 1 { kani::assume(v >= S_VAL[0]); }
            if S_N < 2 { S_IDX[S_N] = index; S_VAL[S_N] = v; S_N += 1; }
            v
        }
    }
    /// for EVERY f32 argument: no out-of-range table index, result within [0, 1], not NaN
    #[kani::proof]
    #[kani::stub(sin_qtr_sample, sample_stub)]
    fn c19_sin_qtr_interp_range_and_index() {
        let a = f32::from_bits(kani::any());
        // documented domain of the helper (outside it the function debug_asserts)
        kani::assume(a >= 0.0 && a <= FRAC_PI_2);
        let y = sin_qtr_interp(a);
        assert!(y >= 0.0 && y <= 1.0);
    }
    /// reachability guard (must FAIL)
    #[kani::proof]
    #[kani::unwind(6)]
    #[kani::stub(sin_qtr_interp, interp_stub)]
    fn guard_sin_is_not_constant_zero() {
        let x = f32::from_bits(kani::any());
        kani::assume(x.is_finite() && x > -6.0 && x < 6.0);
        let (s1, _) = sin_cos_f32(x);
        assert!(s1 == 0.0);
    }
}
