// appended to crates/warp-core/src/provenance_store.rs in the scratch copy only (cfg(kani)).
#[cfg(kani)]
#[allow(clippy::all, clippy::pedantic, clippy::nursery, missing_docs)]
mod verif_kani {
    use super::*;

    fn wl(b: u8) -> WorldlineId { WorldlineId::from_bytes([b; 32]) }
    fn entry(w: WorldlineId, tick: u64, commit_hash: Hash, parents: Vec<ProvenanceRef>) -> ProvenanceEntry {
        ProvenanceEntry {
            worldline_id: w,
            worldline_tick: WorldlineTick::from_raw(tick),
            commit_global_tick: GlobalTick::from_raw(0),
            head_key: None,
            parents,
            event_kind: ProvenanceEventKind::LocalCommit,
            expected: HashTriplet { state_root: [0; 32], patch_digest: [0; 32], commit_hash },
            patch: None,
            tick_receipt: None,
            outputs: Vec::new(),
            atom_writes: Vec::new(),
        }
    }
    fn store(ha: Hash, hb: Hash) -> BTreeMap<WorldlineId, WorldlineHistory> {
        let mut m = BTreeMap::new();
        m.insert(wl(1), WorldlineHistory { u0_ref: WarpId([0; 32]), initial_boundary_hash: [0; 32], entries: vec![entry(wl(1), 0, ha, Vec::new())], checkpoints: Vec::new() });
        m.insert(wl(2), WorldlineHistory { u0_ref: WarpId([0; 32]), initial_boundary_hash: [0; 32], entries: vec![entry(wl(2), 0, hb, Vec::new())], checkpoints: Vec::new() });
        m
    }
    fn any_parent() -> ProvenanceRef {
        let which: u8 = kani::any();
        kani::assume(which >= 1 && which <= 3);   // worldline 1, 2 (registered) or 3 (unknown)
        ProvenanceRef { worldline_id: wl(which), worldline_tick: WorldlineTick::from_raw(kani::any()), commit_hash: kani::any() }
    }

    /// BOUNDED (store: two worldlines with one entry each; the validated entry cites ONE parent whose
    /// worldline, tick and commit hash are symbolic): validate_shared_entry accepts only if the cited
    /// parent is a stored entry OF THE PARENT'S OWN WORLDLINE at that tick with that commit hash, and the
    /// entry is for the expected worldline and the exact next tick.
    #[kani::proof]
    #[kani::unwind(40)]
    fn c05_bounded_one_parent_must_resolve_in_its_own_worldline() {
        let ha: Hash = kani::any();
        let hb: Hash = kani::any();
        let worldlines = store(ha, hb);
        let p = any_parent();
        let tick: u64 = kani::any();
        let ew: u8 = kani::any();
        kani::assume(ew >= 1 && ew <= 2);
        let e = entry(wl(ew), tick, [9; 32], vec![p]);
        let r = LocalProvenanceStore::validate_shared_entry(&worldlines, wl(1), WorldlineTick::from_raw(1), &e);
        let ok = r.is_ok();
        core::mem::forget(r);
        if ok {
            assert!(ew == 1 && tick == 1);
            assert!(p.worldline_tick.as_u64() == 0);
            assert!((p.worldline_id == wl(1) && p.commit_hash == ha) || (p.worldline_id == wl(2) && p.commit_hash == hb));
        }
        core::mem::forget(e);
        core::mem::forget(worldlines);
    }

    /// BOUNDED (two parents): accepted parents are strictly ascending by commit hash (canonical order,
    /// no duplicates).
    #[kani::proof]
    #[kani::unwind(40)]
    fn c05_bounded_two_parents_must_be_strictly_ascending() {
        let ha: Hash = kani::any();
        let hb: Hash = kani::any();
        let worldlines = store(ha, hb);
        let p0 = any_parent();
        let p1 = any_parent();
        let e = entry(wl(1), 1, [9; 32], vec![p0, p1]);
        let r = LocalProvenanceStore::validate_shared_entry(&worldlines, wl(1), WorldlineTick::from_raw(1), &e);
        let ok = r.is_ok();
        core::mem::forget(r);
        if ok { assert!(p0.commit_hash < p1.commit_hash); }
        core::mem::forget(e);
        core::mem::forget(worldlines);
    }

    /// reachability guard (must FAIL): some entry is accepted
    #[kani::proof]
    #[kani::unwind(40)]
    fn guard_validate_shared_entry_never_ok() {
        let ha: Hash = kani::any();
        let worldlines = store(ha, [7; 32]);
        let p = ProvenanceRef { worldline_id: wl(1), worldline_tick: WorldlineTick::from_raw(0), commit_hash: ha };
        let e = entry(wl(1), 1, [9; 32], vec![p]);
        let r = LocalProvenanceStore::validate_shared_entry(&worldlines, wl(1), WorldlineTick::from_raw(1), &e);
        let ok = r.is_ok();
        core::mem::forget(r);
        assert!(!ok);
        core::mem::forget(e);
        core::mem::forget(worldlines);
    }
}
