// appended to crates/warp-core/src/materialization/frame_v2.rs in the scratch copy only (cfg(kani)).
#[cfg(kani)]
#[allow(clippy::all, clippy::pedantic, clippy::nursery, missing_docs)]
mod verif_kani {
    use super::*;

    fn any_header() -> V2PacketHeader {
        V2PacketHeader { session_id: kani::any(), cursor_id: kani::any(), worldline_id: kani::any(),
            warp_id: WarpId(kani::any()), tick: kani::any(), commit_hash: kani::any() }
    }
    fn any_entry(max_len: usize) -> V2Entry {
        let n: usize = kani::any();
        kani::assume(n <= max_len);
        let mut value = Vec::new();
        let mut i = 0;
        while i < max_len { if i < n { value.push(kani::any()); } i += 1; }
        V2Entry { channel: TypeId(kani::any()), value_hash: kani::any(), value }
    }

    /// BOUNDED (exactly 1 entry with a value of 0..=1 bytes; header and all hashes fully symbolic):
    /// decode_v2_packet(encode_v2_packet(h, es)) returns exactly (h, es) - including empty values in
    /// any position - and consumes the whole buffer.
    #[kani::proof]
    #[kani::unwind(12)]
    fn c12_bounded1x1_mbus_v2_roundtrip() {
        let header = any_header();
        let mut entries = Vec::new();
        entries.push(any_entry(1));
        let bytes = match encode_v2_packet(&header, &entries) { Ok(b) => b, Err(_) => { assert!(false); return; } };
        let dec = decode_v2_packet(&bytes);
        assert!(dec.is_ok());
        if let Ok(p) = &dec {
            assert!(p.header == header);
            assert!(p.entries.len() == entries.len());
            let mut i = 0;
            while i < 1 { if i < entries.len() { assert!(p.entries[i] == entries[i]); } i += 1; }
        }
        core::mem::forget(dec); core::mem::forget(entries); core::mem::forget(bytes);
    }

    /// C13, COMPLETE over every 12-byte header with any declared payload length and nothing behind it:
    /// typed error, no panic, no allocation from the declared sizes.
    #[kani::proof]
    #[kani::unwind(6)]
    fn c13_mbus_v2_header_only_is_error() {
        let bytes: [u8; 12] = kani::any();
        let r = decode_v2_packet(&bytes);
        assert!(r.is_err());
        core::mem::forget(r);
    }
    /// reachability guard (must FAIL)
    #[kani::proof]
    #[kani::unwind(12)]
    fn guard_mbus_v2_encode_never_ok() {
        let header = any_header();
        let entries: Vec<V2Entry> = Vec::new();
        let r = encode_v2_packet(&header, &entries);
        assert!(r.is_err());
        core::mem::forget(r);
    }
}
