// appended to crates/warp-math/src/scalar.rs in the scratch copy only (cfg(kani)).
#[cfg(kani)]
#[allow(unsafe_code, clippy::all, clippy::pedantic, clippy::nursery, missing_docs, static_mut_refs)]
mod verif_kani {
    use super::*;
    /// canonical form of the float scalar type: never -0, never subnormal, NaN only as 0x7fc00000
    fn canonical(bits: u32) -> bool {
        let f = f32::from_bits(bits);
        bits != 0x8000_0000 && !f.is_subnormal() && (!f.is_nan() || bits == 0x7fc0_0000)
    }
    fn any_s() -> F32Scalar { F32Scalar::new(f32::from_bits(kani::any())) }
    fn bits(s: F32Scalar) -> u32 { s.to_f32().to_bits() }

    // each harness is loop-free and symbolic over ALL operand bit patterns => complete
    #[kani::proof] fn c19_new_canonical() { let x: u32 = kani::any(); assert!(canonical(bits(F32Scalar::new(f32::from_bits(x))))); }
    #[kani::proof] fn c19_new_idempotent() { let s = any_s(); assert!(bits(F32Scalar::new(s.to_f32())) == bits(s)); }
    #[kani::proof] fn c19_new_identity_on_canonical_non_nan() {
        let x: u32 = kani::any(); let f = f32::from_bits(x);
        kani::assume(canonical(x) && !f.is_nan());
        assert!(bits(F32Scalar::new(f)) == x);
    }
    #[kani::proof] fn c19_from_f32_canonical() { let x: u32 = kani::any(); assert!(canonical(bits(<F32Scalar as Scalar>::from_f32(f32::from_bits(x))))); }
    #[kani::proof] fn c19_zero_one_canonical() {
        assert!(bits(<F32Scalar as Scalar>::zero()) == 0 && bits(<F32Scalar as Scalar>::one()) == 0x3f80_0000);
    }
    #[kani::proof] fn c19_add_canonical() { assert!(canonical(bits(any_s() + any_s()))); }
    #[kani::proof] fn c19_sub_canonical() { assert!(canonical(bits(any_s() - any_s()))); }
    #[kani::proof] fn c19_mul_canonical() { assert!(canonical(bits(any_s() * any_s()))); }
    #[kani::proof] fn c19_div_canonical() { assert!(canonical(bits(any_s() / any_s()))); }
    #[kani::proof] fn c19_neg_canonical() { assert!(canonical(bits(-any_s()))); }
    /// operators are functions of the canonical operand bits (bit-stable): same bits in, same bits out
    #[kani::proof] fn c19_add_commutes_bitwise() { let a = any_s(); let b = any_s(); assert!(bits(a + b) == bits(b + a)); }

    #[kani::proof] fn c19_fixed_from_f32_total() { let x: u32 = kani::any(); let _ = crate::fixed_q32_32::from_f32(f32::from_bits(x)); }
    #[kani::proof] fn c19_fixed_to_f32_total_finite() { let x: i64 = kani::any(); let f = crate::fixed_q32_32::to_f32(x); assert!(f.is_finite()); }
    #[kani::proof] fn c19_fixed_nan_maps_to_zero_inf_saturates() {
        assert!(crate::fixed_q32_32::from_f32(f32::NAN) == 0);
        assert!(crate::fixed_q32_32::from_f32(f32::INFINITY) == i64::MAX);
        assert!(crate::fixed_q32_32::from_f32(f32::NEG_INFINITY) == i64::MIN);
    }
    /// reachability guard (must FAIL)
    #[kani::proof] fn guard_new_is_not_identity() { let x: u32 = kani::any(); assert!(bits(F32Scalar::new(f32::from_bits(x))) == x); }
}
#[cfg(all(kani, feature = "det_fixed"))]
#[allow(clippy::all, clippy::pedantic, clippy::nursery)]
mod verif_kani_int {
    use super::*;
    // integer-only fixed point: run WITH overflow checks; all (a, b) in i64 x i64
    #[kani::proof] fn c19_dfix_add_sub_neg_total() {
        let a: i64 = kani::any(); let b: i64 = kani::any();
        let s = DFix64::saturating_add_raw(a, b);
        let d = DFix64::saturating_sub_raw(a, b);
        let n = DFix64::saturating_neg_raw(a);
        let exact = (a as i128) + (b as i128);
        assert!(s as i128 == exact || (exact > i64::MAX as i128 && s == i64::MAX) || (exact < i64::MIN as i128 && s == i64::MIN));
        let exd = (a as i128) - (b as i128);
        assert!(d as i128 == exd || (exd > i64::MAX as i128 && d == i64::MAX) || (exd < i64::MIN as i128 && d == i64::MIN));
        assert!(n as i128 == -(a as i128) || (a == i64::MIN && n == i64::MAX));
    }
    /// Q32.32 conversion, ALL finite f32, overflow checks ON: no panic (in particular no "negate with overflow"),
    /// sign-faithful, saturating exactly at +/-2^31, exact on representable halves
    #[kani::proof] fn c19_fixed_from_f32_sign_and_saturation() {
        let x = f32::from_bits(kani::any());
        kani::assume(x.is_finite());
        let r = crate::fixed_q32_32::from_f32(x);
        if x >= 2147483648.0 { assert!(r == i64::MAX); }
        if x <= -2147483648.0 { assert!(r == i64::MIN); }
        if x > 0.0 { assert!(r >= 0); }
        if x < 0.0 { assert!(r <= 0); }
        if x == 0.0 { assert!(r == 0); }
        if x == 1.0 { assert!(r == 1i64 << 32); }
        if x == -0.5 { assert!(r == -(1i64 << 31)); }
    }
    #[kani::proof] fn c19_dfix_mul_total() { let a: i64 = kani::any(); let b: i64 = kani::any(); let _ = DFix64::mul_raw(a, b); }
    #[kani::proof] fn c19_dfix_div_total() { let a: i64 = kani::any(); let b: i64 = kani::any(); let _ = DFix64::div_raw(a, b); }
}
