// appended to crates/echo-wasm-abi/src/canonical.rs in the scratch copy only (cfg(kani)).
// Idiom: results are inspected by reference and then `forget`-ed so CBMC never unrolls
// ciborium::Value's recursive drop glue.
#[cfg(kani)]
mod verif_kani {
    use super::*;

    fn decode_float(bytes: &[u8]) -> (Option<f64>, usize) {
        let mut idx = 0usize;
        let r = dec_value(bytes, &mut idx);
        let ok = match &r { Ok(Value::Float(f)) => Some(*f), _ => None };
        core::mem::forget(r);
        (ok, idx)
    }
    fn decode_int(bytes: &[u8]) -> (Option<i128>, bool, usize) {
        let mut idx = 0usize;
        let r = dec_value(bytes, &mut idx);
        let ok = match &r { Ok(Value::Integer(i)) => Some(i128::from(*i)), _ => None };
        let is_ok = r.is_ok();
        core::mem::forget(r);
        (ok, is_ok, idx)
    }

    /// COMPLETE over all 2^16 payloads: f9 hh hh accepted => re-encodes to exactly those bytes.
    #[kani::proof]
    #[kani::unwind(10)]
    fn c12_f16_accepted_implies_canonical() {
        let b1: u8 = kani::any();
        let b2: u8 = kani::any();
        let bytes = [0xf9u8, b1, b2];
        let (ok, _) = decode_float(&bytes);
        if let Some(f) = ok {
            let mut out = Vec::new();
            enc_float(f, &mut out);
            assert!(out.len() == 3 && out[0] == 0xf9 && out[1] == b1 && out[2] == b2);
            core::mem::forget(out);
        }
    }
    /// COMPLETE over all 2^32 payloads.
    #[kani::proof]
    #[kani::unwind(10)]
    fn c12_f32_accepted_implies_canonical() {
        let b: [u8; 4] = kani::any();
        let bytes = [0xfau8, b[0], b[1], b[2], b[3]];
        let (ok, _) = decode_float(&bytes);
        if let Some(f) = ok {
            let mut out = Vec::new();
            enc_float(f, &mut out);
            assert!(out.len() == 5 && out[0] == 0xfa && out[1] == b[0] && out[2] == b[1] && out[3] == b[2] && out[4] == b[3]);
            core::mem::forget(out);
        }
    }
    /// COMPLETE over all 2^64 payloads.
    #[kani::proof]
    #[kani::unwind(10)]
    fn c12_f64_accepted_implies_canonical() {
        let b: [u8; 8] = kani::any();
        let bytes = [0xfbu8, b[0], b[1], b[2], b[3], b[4], b[5], b[6], b[7]];
        let (ok, _) = decode_float(&bytes);
        if let Some(f) = ok {
            let mut out = Vec::new();
            enc_float(f, &mut out);
            assert!(out.len() == 9 && out[0] == 0xfb && out[1] == b[0] && out[2] == b[1] && out[3] == b[2]
                && out[4] == b[3] && out[5] == b[4] && out[6] == b[5] && out[7] == b[6] && out[8] == b[7]);
            core::mem::forget(out);
        }
    }
    fn check_int_head(b0: u8) {
        let r: [u8; 8] = kani::any();
        let bytes = [b0, r[0], r[1], r[2], r[3], r[4], r[5], r[6], r[7]];
        let (ok, _, idx) = decode_int(&bytes);
        if let Some(n) = ok {
            let mut out = Vec::new();
            enc_int(n, &mut out);
            assert!(out.len() == idx && idx <= 9);
            let mut k = 0;
            while k < 9 { if k < idx { assert!(out[k] == bytes[k]); } k += 1; }
            core::mem::forget(out);
        }
    }
    // accepted => canonical for integer heads, one harness per concrete first byte (the 8 bytes
    // behind it are fully symbolic).  Infos 0..=23 share one decoder arm; 0x00/0x17 are its ends.
    macro_rules! int_head_harness { ($name:ident, $b0:expr) => {
        #[kani::proof]
        #[kani::unwind(10)]
        fn $name() { check_int_head($b0); }
    } }
    int_head_harness!(c12_int_head_p_00, 0x00u8);
    int_head_harness!(c12_int_head_p_17, 0x17u8);
    int_head_harness!(c12_int_head_p_18, 0x18u8);
    int_head_harness!(c12_int_head_p_19, 0x19u8);
    int_head_harness!(c12_int_head_p_1a, 0x1au8);
    int_head_harness!(c12_int_head_p_1b, 0x1bu8);
    int_head_harness!(c12_int_head_p_1c, 0x1cu8);
    int_head_harness!(c12_int_head_p_1f, 0x1fu8);
    int_head_harness!(c12_int_head_n_00, 0x20u8);
    int_head_harness!(c12_int_head_n_17, 0x37u8);
    int_head_harness!(c12_int_head_n_18, 0x38u8);
    int_head_harness!(c12_int_head_n_19, 0x39u8);
    int_head_harness!(c12_int_head_n_1a, 0x3au8);
    int_head_harness!(c12_int_head_n_1b, 0x3bu8);
    int_head_harness!(c12_int_head_n_1c, 0x3cu8);
    int_head_harness!(c12_int_head_n_1f, 0x3fu8);

    /// encoder side, one width class at a time (the class fixes the head byte, which keeps the
    /// decoder's dispatch concrete): whatever enc_value accepts for an integer decodes back to it.
    fn check_int_roundtrip(n: i128, head: u8, len: usize) {
        let i = match Integer::try_from(n) { Ok(i) => i, Err(_) => return };
        let v = Value::Integer(i);
        let mut out = Vec::new();
        let r = enc_value(&v, &mut out);
        let enc_ok = r.is_ok();
        core::mem::forget(r);
        core::mem::forget(v);
        if enc_ok {
            assert!(out.len() == len && out[0] == head);
            let mut bytes = [0u8; 9];
            bytes[0] = head;
            let mut k = 1;
            while k < 9 { if k < len { bytes[k] = out[k]; } k += 1; }
            let (ok, _, idx) = decode_int(&bytes[..len]);
            assert!(ok == Some(n));
            assert!(idx == len);
        }
        core::mem::forget(out);
    }
    #[kani::proof]
    #[kani::unwind(10)]
    fn c12_int_roundtrip_pos_u8_u16() {
        let n: i128 = kani::any();
        if n >= 24 && n <= 0xff { check_int_roundtrip(n, 0x18, 2); }
        else if n >= 0x100 && n <= 0xffff { check_int_roundtrip(n, 0x19, 3); }
    }
    #[kani::proof]
    #[kani::unwind(10)]
    fn c12_int_roundtrip_pos_u32() {
        let n: i128 = kani::any();
        kani::assume(n >= 0x1_0000 && n <= 0xffff_ffff);
        check_int_roundtrip(n, 0x1a, 5);
    }
    #[kani::proof]
    #[kani::unwind(10)]
    fn c12_int_roundtrip_pos_u64() {
        let n: i128 = kani::any();
        kani::assume(n >= 0x1_0000_0000 && n <= 0xffff_ffff_ffff_ffff);
        check_int_roundtrip(n, 0x1b, 9);
    }
    #[kani::proof]
    #[kani::unwind(10)]
    fn c12_int_roundtrip_neg_u8_u16() {
        let n: i128 = kani::any();
        if n <= -25 && n >= -0x100 { check_int_roundtrip(n, 0x38, 2); }
        else if n <= -0x101 && n >= -0x1_0000 { check_int_roundtrip(n, 0x39, 3); }
    }
    #[kani::proof]
    #[kani::unwind(10)]
    fn c12_int_roundtrip_neg_u32() {
        let n: i128 = kani::any();
        kani::assume(n <= -0x1_0001 && n >= -0x1_0000_0000);
        check_int_roundtrip(n, 0x3a, 5);
    }
    /// the 64-bit negative class is where the encoder's and the decoder's integer ranges differ (F4)
    #[kani::proof]
    #[kani::unwind(10)]
    fn c12_int_roundtrip_neg_u64() {
        let n: i128 = kani::any();
        kani::assume(n <= -0x1_0000_0001 && n >= -0x1_0000_0000_0000_0000);
        check_int_roundtrip(n, 0x3b, 9);
    }
    /// COMPLETE over all finite f64 that the encoder writes as a 64-bit-argument integer (the only
    /// class where truncation can occur, F7): the integer written denotes the same number.
    #[kani::proof]
    #[kani::unwind(10)]
    fn c12_integral_float_encodes_to_same_number_w64() {
        let bits: u64 = kani::any();
        let f = f64::from_bits(bits);
        kani::assume(f.is_finite());
        kani::assume(f >= 4294967296.0 || f <= -4294967297.0);
        let mut out = Vec::new();
        enc_float(f, &mut out);
        if out.len() == 9 && (out[0] == 0x1b || out[0] == 0x3b) {
            let bytes = [if out[0] == 0x1b { 0x1bu8 } else { 0x3bu8 }, out[1], out[2], out[3], out[4], out[5], out[6], out[7], out[8]];
            let (ok, _, idx) = if out[0] == 0x1b { let b = [0x1bu8, bytes[1], bytes[2], bytes[3], bytes[4], bytes[5], bytes[6], bytes[7], bytes[8]]; decode_int(&b) }
                               else { let b = [0x3bu8, bytes[1], bytes[2], bytes[3], bytes[4], bytes[5], bytes[6], bytes[7], bytes[8]]; decode_int(&b) };
            assert!(ok.is_some());
            assert!(idx == 9);
            assert!(ok.unwrap() as f64 == f);
        }
        core::mem::forget(out);
    }
    /// non-integral floats round trip bit-exactly; one harness per target width, the expected head
    /// byte asserted and then used concretely.
    #[kani::proof]
    #[kani::unwind(10)]
    fn c12_float_roundtrip_f16_class() {
        let h: u16 = kani::any();
        let f = f16::from_bits(h).to_f64();
        kani::assume(!f.is_nan() && !is_exact_int(f));
        let mut out = Vec::new();
        enc_float(f, &mut out);
        assert!(out.len() == 3 && out[0] == 0xf9);
        let bytes = [0xf9u8, out[1], out[2]];
        let (ok, idx) = decode_float(&bytes);
        assert!(ok.is_some() && ok.unwrap().to_bits() == f.to_bits() && idx == 3);
        core::mem::forget(out);
    }
    #[kani::proof]
    #[kani::unwind(10)]
    fn c12_float_roundtrip_f32_class() {
        let s: u32 = kani::any();
        let f = f64::from(f32::from_bits(s));
        kani::assume(!f.is_nan() && !is_exact_int(f) && !can_fit_f16(f));
        let mut out = Vec::new();
        enc_float(f, &mut out);
        assert!(out.len() == 5 && out[0] == 0xfa);
        let bytes = [0xfau8, out[1], out[2], out[3], out[4]];
        let (ok, idx) = decode_float(&bytes);
        assert!(ok.is_some() && ok.unwrap().to_bits() == f.to_bits() && idx == 5);
        core::mem::forget(out);
    }
    #[kani::proof]
    #[kani::unwind(10)]
    fn c12_float_roundtrip_f64_class() {
        let bits: u64 = kani::any();
        let f = f64::from_bits(bits);
        kani::assume(!f.is_nan() && !is_exact_int(f) && !can_fit_f32(f) && !can_fit_f16(f));
        let mut out = Vec::new();
        enc_float(f, &mut out);
        assert!(out.len() == 9 && out[0] == 0xfb);
        let bytes = [0xfbu8, out[1], out[2], out[3], out[4], out[5], out[6], out[7], out[8]];
        let (ok, idx) = decode_float(&bytes);
        assert!(ok.is_some() && ok.unwrap().to_bits() == f.to_bits() && idx == 9);
        core::mem::forget(out);
    }
    /// C13, COMPLETE over all 2^64 declared lengths: an array/map head with no elements behind it
    /// is answered with an error - no panic, no allocation proportional to the declared length.
    #[kani::proof]
    #[kani::unwind(10)]
    fn c13_array_head_total() {
        let len: [u8; 8] = kani::any();
        let bytes = [0x9bu8, len[0], len[1], len[2], len[3], len[4], len[5], len[6], len[7]];
        let (_, is_ok, _) = decode_int(&bytes);
        assert!(!is_ok);
    }
    #[kani::proof]
    #[kani::unwind(10)]
    fn c13_map_head_total() {
        let len: [u8; 8] = kani::any();
        let bytes = [0xbbu8, len[0], len[1], len[2], len[3], len[4], len[5], len[6], len[7]];
        let (_, is_ok, _) = decode_int(&bytes);
        assert!(!is_ok);
    }
    /// C13, COMPLETE over all 2^64 declared lengths: a byte-string head (8-byte length form; the decoder arm is shared with text strings, whose UTF-8 validation loop CBMC could not close) with no payload
    /// behind it is answered with an error - no panic (no overflow of offset + length, no out-of-range slice), whatever
    /// the declared length
    #[kani::proof]
    #[kani::unwind(10)]
    fn c13_bytes_head_total() {
        let len: [u8; 8] = kani::any();
        let bytes = [0x5bu8, len[0], len[1], len[2], len[3], len[4], len[5], len[6], len[7]];
        let (_, is_ok, _) = decode_int(&bytes);
        assert!(!is_ok);
    }
    /// reachability guard (must FAIL): some f32 payload is accepted
    #[kani::proof]
    #[kani::unwind(10)]
    fn guard_some_f32_payload_is_accepted() {
        let b: [u8; 4] = kani::any();
        let bytes = [0xfau8, b[0], b[1], b[2], b[3]];
        let (ok, _) = decode_float(&bytes);
        assert!(ok.is_none());
    }
}
