// appended to crates/warp-core/src/causal_wal.rs in the scratch copy only (cfg(kani)).
// Hint-free companions of the Verus unit c10_wal_reader: they exercise the real read_segment_bytes on
// inputs that never reach a payload decoder, so they do not depend on any proof annotation.
#[cfg(kani)]
#[allow(clippy::all, clippy::pedantic, clippy::nursery, missing_docs)]
mod verif_kani {
    use super::*;

    fn outcome(bytes: &[u8]) -> (bool, bool, usize, usize) {
        let r = read_segment_bytes(bytes);
        let res = match &r { Ok((f, c, torn)) => (true, *torn, f.len(), c.len()), Err(_) => (false, false, 0, 0) };
        core::mem::forget(r);
        res
    }

    /// COMPLETE over every byte string shorter than one record header (0..=16 bytes, any content):
    /// a crash inside the first record header is a torn tail - never an error, nothing recovered.
    #[kani::proof]
    #[kani::unwind(20)]
    fn c10_cut_inside_first_header_is_torn_tail() {
        let bytes: [u8; 16] = kani::any();
        let n: usize = kani::any();
        kani::assume(n <= 16);
        let (ok, torn, nf, nc) = outcome(&bytes[..n]);
        assert!(ok);
        assert!(torn == (n != 0));
        assert!(nf == 0 && nc == 0);
    }

    /// BOUNDED in the input length (17..=48 bytes), complete in the header content (any kind byte, any
    /// declared length): a record whose payload+digest are not completely present is a torn tail.
    #[kani::proof]
    #[kani::unwind(52)]
    fn c10_bounded48_incomplete_record_is_torn_tail() {
        let mut bytes: [u8; 48] = kani::any();
        let mut i = 0;
        while i < 8 { bytes[i] = WAL_SEGMENT_RECORD_MAGIC[i]; i += 1; }
        let n: usize = kani::any();
        kani::assume(n >= 17 && n <= 48);
        let declared = u64::from_le_bytes([bytes[9], bytes[10], bytes[11], bytes[12], bytes[13], bytes[14], bytes[15], bytes[16]]);
        kani::assume(declared > 48); // record cannot be complete within the input
        let (ok, torn, nf, nc) = outcome(&bytes[..n]);
        assert!(ok && torn && nf == 0 && nc == 0);
    }

    /// C11, COMPLETE over the first 8 bytes: anything that is not the record magic in front of a full
    /// header is reported as an error (never skipped, never resynchronised).
    #[kani::proof]
    #[kani::unwind(20)]
    fn c11_bad_magic_is_error() {
        let bytes: [u8; 17] = kani::any();
        let mut same = true;
        let mut i = 0;
        while i < 8 { if bytes[i] != WAL_SEGMENT_RECORD_MAGIC[i] { same = false; } i += 1; }
        kani::assume(!same);
        let (ok, _, _, _) = outcome(&bytes);
        assert!(!ok);
    }

    /// reachability guard (must FAIL)
    #[kani::proof]
    #[kani::unwind(20)]
    fn guard_short_input_is_never_ok() {
        let bytes: [u8; 16] = kani::any();
        let (ok, _, _, _) = outcome(&bytes[..3]);
        assert!(!ok);
    }

    // ---- C11: hint-free companion for validate_recovery_frame_order (the Verus unit c11_tx_frames proves the same
    // ---- on the extracted function; this harness needs no annotation and survives refactors of the loop) -------------
    fn stub_integrity_ok(_f: &WalFrame) -> Result<(), WalValidationError> { Ok(()) }
    fn frame_at(lsn: u64, seg: u64) -> WalFrame {
        WalFrame {
            header: WalFrameHeader {
                wal_version: 1, writer_epoch: WriterEpochId([1u8; 32]), segment_id: WalSegmentId(seg), lsn: Lsn(lsn),
                transaction_id: WalTransactionId([2u8; 32]), transaction_local_index: TransactionLocalIndex(0),
                record_kind: WalRecordKind::ExternalActionRequestRecorded, payload_len: 0, payload_digest: [0u8; 32],
                payload_codec_id: PayloadCodecId([3u8; 32]), payload_schema_id: PayloadSchemaId([4u8; 32]),
                payload_schema_version: 1, canonical_encoding_version: 1, digest_domain: [5u8; 32],
                compression_kind: WalCompressionKind::None, encryption_or_redaction_posture: WalRedactionPosture::Present,
                previous_frame_digest: [0u8; 32], header_checksum: 0,
            },
            payload: WalRecordPayload { kind: WalRecordKind::ExternalActionRequestRecorded, schema_version: 1, canonical_bytes: Vec::new() },
            trailer: WalFrameTrailer { frame_checksum: 0 },
        }
    }
    /// BOUNDED (two frames; LSNs and segment ids fully symbolic; per-frame integrity stubbed to Ok): the recovery
    /// frame order is accepted only if the two LSNs are consecutive - whatever segments the frames sit in.
    #[kani::proof]
    #[kani::unwind(6)]
    #[kani::stub(WalFrame::validate_integrity, stub_integrity_ok)]
    fn c11_bounded2_recovery_frame_order_needs_consecutive_lsns() {
        let (a, b): (u64, u64) = (kani::any(), kani::any());
        let (sa, sb): (u64, u64) = (kani::any(), kani::any());
        let frames = [frame_at(a, sa), frame_at(b, sb)];
        let r = validate_recovery_frame_order(&frames);
        let ok = r.is_ok();
        core::mem::forget(r);
        let (lo, hi) = if a <= b { (a, b) } else { (b, a) };
        assert!(!ok || (lo < u64::MAX && hi == lo + 1));
        core::mem::forget(frames);
    }
    /// reachability guard (must FAIL): consecutive LSNs are accepted, so "never Ok" is refuted
    #[kani::proof]
    #[kani::unwind(6)]
    #[kani::stub(WalFrame::validate_integrity, stub_integrity_ok)]
    fn guard_recovery_frame_order_never_ok() {
        let a: u64 = kani::any();
        kani::assume(a < 1000);
        let frames = [frame_at(a, 1), frame_at(a + 1, 1)];
        let r = validate_recovery_frame_order(&frames);
        let ok = r.is_ok();
        core::mem::forget(r);
        core::mem::forget(frames);
        assert!(!ok);
    }
}
