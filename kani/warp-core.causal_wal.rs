// appended to crates/warp-core/src/causal_wal.rs in the scratch copy only (cfg(kani)).
// Hint-free companions of the Verus unit c10_wal_reader: they exercise the real read_segment_bytes on
// inputs that never reach a payload decoder, so they do not depend on any proof annotation.
#[cfg(kani)]
#[allow(clippy::all, clippy::pedantic, clippy::nursery, missing_docs)]
mod verif_kani {
    use super::*;

    fn outcome(bytes: &[u8]) -> (bool, bool, usize, usize) {
        let r = read_segment_bytes(bytes);
        let res = match &r { Ok((f, c, torn)) => (true, *torn, f.len(), c.len()), Err(_) => (false, false, 0, 0) };
        core::mem::forget(r);
        res
    }

    /// COMPLETE over every byte string shorter than one record header (0..=16 bytes, any content):
    /// a crash inside the first record header is a torn tail - never an error, nothing recovered.
    #[kani::proof]
    #[kani::unwind(20)]
    fn c10_cut_inside_first_header_is_torn_tail() {
        let bytes: [u8; 16] = kani::any();
        let n: usize = kani::any();
        kani::assume(n <= 16);
        let (ok, torn, nf, nc) = outcome(&bytes[..n]);
        assert!(ok);
        assert!(torn == (n != 0));
        assert!(nf == 0 && nc == 0);
    }

    /// BOUNDED in the input length (17..=48 bytes), complete in the header content (any kind byte, any
    /// declared length): a record whose payload+digest are not completely present is a torn tail.
    #[kani::proof]
    #[kani::unwind(52)]
    fn c10_bounded48_incomplete_record_is_torn_tail() {
        let mut bytes: [u8; 48] = kani::any();
        let mut i = 0;
        while i < 8 { bytes[i] = WAL_SEGMENT_RECORD_MAGIC[i]; i += 1; }
        let n: usize = kani::any();
        kani::assume(n >= 17 && n <= 48);
        let declared = u64::from_le_bytes([bytes[9], bytes[10], bytes[11], bytes[12], bytes[13], bytes[14], bytes[15], bytes[16]]);
        kani::assume(declared > 48); // record cannot be complete within the input
        let (ok, torn, nf, nc) = outcome(&bytes[..n]);
        assert!(ok && torn && nf == 0 && nc == 0);
    }

    /// C11, COMPLETE over the first 8 bytes: anything that is not the record magic in front of a full
    /// header is reported as an error (never skipped, never resynchronised).
    #[kani::proof]
    #[kani::unwind(20)]
    fn c11_bad_magic_is_error() {
        let bytes: [u8; 17] = kani::any();
        let mut same = true;
        let mut i = 0;
        while i < 8 { if bytes[i] != WAL_SEGMENT_RECORD_MAGIC[i] { same = false; } i += 1; }
        kani::assume(!same);
        let (ok, _, _, _) = outcome(&bytes);
        assert!(!ok);
    }

    /// reachability guard (must FAIL)
    #[kani::proof]
    #[kani::unwind(20)]
    fn guard_short_input_is_never_ok() {
        let bytes: [u8; 16] = kani::any();
        let (ok, _, _, _) = outcome(&bytes[..3]);
        assert!(!ok);
    }
}
