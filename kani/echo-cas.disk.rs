// appended to crates/echo-cas/src/disk.rs in the scratch copy only (cfg(kani)).
#[cfg(kani)]
#[allow(clippy::all, clippy::pedantic, clippy::nursery, missing_docs)]
mod verif_kani {
    use super::*;
    /// COMPLETE over all 2^8 bytes: hex_nibble inverts the digit table used by blob_hash_hex (both cases),
    /// everything else is rejected.
    #[kani::proof]
    fn c20_hex_nibble_inverts_digit_table() {
        let v: u8 = kani::any();
        kani::assume(v < 16);
        const HEX: &[u8; 16] = b"0123456789abcdef";
        assert!(hex_nibble(HEX[v as usize]) == Some(v));
        let b: u8 = kani::any();
        let r = hex_nibble(b);
        let is_hex = (b >= b'0' && b <= b'9') || (b >= b'a' && b <= b'f') || (b >= b'A' && b <= b'F');
        assert!(r.is_some() == is_hex);
        if let Some(n) = r { assert!(n < 16); }
    }
    /// COMPLETE over all 32-byte hashes: the on-disk file name decodes back to the hash (64 lower-case
    /// hex characters), so two different hashes never share a path.
    #[kani::proof]
    #[kani::unwind(66)]
    fn c20_hash_hex_roundtrip() {
        let h = BlobHash::from_bytes(kani::any());
        let hex = blob_hash_hex(&h);
        assert!(hex.len() == 64);
        let back = blob_hash_from_hex(&hex);
        assert!(back == Some(h));
    }
    /// reachability guard (must FAIL)
    #[kani::proof]
    fn guard_hex_nibble_not_always_none() { let b: u8 = kani::any(); assert!(hex_nibble(b).is_none()); }
}
